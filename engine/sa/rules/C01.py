"""C01 — evaluation returns the polynomial's value (DESIGN §5 C01).

The rules are formulated on the *normal form* of the mini-MIR (sa.normalize: helpers unknown on the
pinned tree inlined, closure adaptor chains / try_fold / extend([..]) as explicit `next` loops) and on
value expressions (`VX`, below) rather than on the syntactic shape of the evaluators:

  value  = the operand of the single `Ok((value, ids))` exit, resolved backwards through copies,
           references, `?` (Try::branch + Continue payload), Ok-wrapping, tuple building and - for
           locals with several definitions - as a `phi` of its definitions, in which a reference to
           the local itself is the marker `acc`.  `sum = init; loop { sum += t }`, `sum = t + sum`,
           `try_fold(init, |acc, x| Ok(acc + t))?` and `fold` all come out as
                 phi(sum, [init, Add(acc, t)])
  loops  = `for` loops (after normalisation): the item of a loop is `next(..) as Some.0`; where an
           item comes from in the message is found by walking the iterator expression through
           pure "view" calls (ITERISH) and zips (COMPONENT idioms) down to a field path of `self`.
A kernel (Linear / Quadratic / Polynomial) is described by message paths (KERNELS) and checked
against:  value = init + Σ_{terms} coefficient · Π_{ids} state[id],  ids ⊆ returned set.
"""
from .common import *

VIEW = 'norm'

STATE_GET = r'HashMap::<u64, f64>::get'
# documented "is this variable fixed?" probes: a missing entry legitimately means "keep the term"
PROBE_EXEMPT = {
    ('v1::Linear', 'partial_evaluate'): 1, ('v1::Quadratic', 'partial_evaluate'): 3, ('v1::Polynomial', 'partial_evaluate'): 1,
    ('v1::Instance', 'partial_evaluate'): 1, ('v1::Instance', 'check_bound'): 0,
}

# what a kernel computes, as field paths from `self` (lists are crossed by loops)
KERNELS = {
    'Linear': dict(ty='v1::Linear', init='constant',
                   coef=[('v1::Linear', 'terms'), ('v1::linear::Term', 'coefficient')],
                   ids=[[('v1::Linear', 'terms'), ('v1::linear::Term', 'id')]]),
    'Quadratic': dict(ty='v1::Quadratic', init='linear-part',
                      # the optional part, if its evaluation is written out in place instead of being called: paths of the part's kernel below this prefix
                      part=dict(prefix=[('v1::Quadratic', 'linear'), ('std::option::Option::Some', '0')], kernel='Linear', test=('v1::Quadratic', 'linear')),
                      coef=[('v1::Quadratic', 'values')],
                      ids=[[('v1::Quadratic', 'rows')], [('v1::Quadratic', 'columns')]]),
    'Polynomial': dict(ty='v1::Polynomial', init='zero',
                       coef=[('v1::Polynomial', 'terms'), ('v1::Monomial', 'coefficient')],
                       ids=[[('v1::Polynomial', 'terms'), ('v1::Monomial', 'ids')]]),
}


# ------------------------------------------------------------------------------------------------
# variant-aware value expressions
# ------------------------------------------------------------------------------------------------
OKV = ('Ok', 'Some', 'Continue', '<ok>'); ERRV = ('Err', 'None', 'Break')
OK_OF = 'std::result::Result::Ok'
OK_PROJ = [{'dc': '<ok>'}, {'f': '0', 'of': OK_OF}]
# equivalent ways of building the Ok variant by a call
OK_CTOR_CALL = re.compile(r'^anyhow::Ok$|^anyhow::__private::Ok$')           # anyhow::Ok(x) ≡ Ok(x)
SCALAR = ('f64', 'f32', 'u64', 'i64', 'usize', 'bool', 'i32', 'u32')
OWNED_COLLECTION = re.compile(r'^(std::vec::Vec|std::collections::|std::string::String)')


def _vclass(v):
    if v in OKV: return 'ok'
    if v in ERRV: return 'err'
    return v


def _split(p):
    """projection list without derefs (references are followed transparently); None if it has an element not modelled here"""
    out = []
    for x in p:
        if x == '*': continue
        if isinstance(x, dict) and ('dc' in x or 'f' in x): out.append(x)
        elif isinstance(x, dict) and 'cix' in x and not x.get('fe'): out.append({'f': str(x['cix']), 'of': 'array'})      # `[a, b]` pattern: constant index = component of the array
        else: return None
    return out


def _fs(q):
    return [(e['of'], e['f']) for e in q if 'f' in e]


class VX:
    """expression trees like templates.expr, plus:
       * `X as V.0` picks the definitions of X that build variant V (agg Ok/Some/Continue, anyhow::Ok,
         the Continue side of Try::branch); `from_residual` results are Err/None only;
       * `?` is transparent:  (branch(X) as Continue).0  ≡  (X as Ok).0;
       * a local with several definitions is ('phi', local, [definition exprs], [definition blocks]);
         inside its own definitions the local is ('acc', local);
       * `x op= y` through `&mut x` (f64 OpAssign traits) is the definition  x = x op y."""

    def __init__(self, body):
        self.b = body
        self.callmap = {c.bb: c for c in body.calls}
        self._defs = {}
        # &mut aliases of whole locals
        alias = {}
        for bi, st in body.stmts():
            rv = st['rv']
            if rv['k'] == 'ref' and rv.get('mut') and not st['dst']['p'] and not rv['pl']['p']: alias[st['dst']['l']] = rv['pl']['l']
        changed = True
        while changed:
            changed = False
            for bi, st in body.stmts():
                rv = st['rv']; d = st['dst']
                if d['p'] or d['l'] in alias: continue
                if rv['k'] == 'ref' and rv.get('mut') and rv['pl']['p'] == ['*'] and rv['pl']['l'] in alias:
                    alias[d['l']] = alias[rv['pl']['l']]; changed = True
                elif rv['k'] == 'use' and rv['ops'][0]['k'] in ('copy', 'move') and not rv['ops'][0]['pl']['p'] and rv['ops'][0]['pl']['l'] in alias:
                    alias[d['l']] = alias[rv['ops'][0]['pl']['l']]; changed = True
        self.alias = alias
        self.opassign = {}
        self.through = {}           # x -> [(bb, stmt)]: `*r = ..` with r a &mut alias of x (a captured accumulator after splicing)
        escaped = set()
        for bi, st in body.stmts():
            d = st['dst']
            if d['p'] == ['*'] and d['l'] in alias: self.through.setdefault(alias[d['l']], []).append((bi, st))
        for r, x in alias.items():
            for kind, bi, u in body.uses.get(r, ()):
                if kind == 'call':
                    m = T.ASSIGN_CALL.match(u.name)
                    if m and u.arg_local(0) == r and not u.args[0]['pl']['p']:
                        self.opassign.setdefault(x, []).append((u.bb, m.group(1), u.args[1]))
                    elif all(a['pl']['p'][:1] == ['*'] for a in u.args if a['k'] in ('copy', 'move') and a['pl']['l'] == r): continue    # reads *r
                    else: escaped.add(x)
                elif kind == 'stmt':
                    if u['dst']['l'] in alias and not u['dst']['p']: continue     # re-borrow / copy of the reference
                    rv = u['rv']
                    srcs = [o['pl'] for o in rv.get('ops', []) if o['k'] in ('copy', 'move') and o['pl']['l'] == r]
                    if 'pl' in rv and rv['pl']['l'] == r: srcs.append(rv['pl'])
                    if all(pl['p'][:1] == ['*'] for pl in srcs) and not (rv['k'] == 'ref' and rv.get('mut')): continue       # reads *r
                    if rv['k'] == 'agg' and rv['adt'].startswith('closure:') and not u['dst']['p'] and not body.uses.get(u['dst']['l']): continue   # captured by a closure whose body has been spliced (the value is dead)
                    escaped.add(x)
        self.escaped = escaped      # locals mutably borrowed for something else than an OpAssign / a spliced closure
        # locals written field by field: local -> {field: [definitions of that field]}  (assignments `l.f = ..` and `l.f op= y` through `&mut l.f`)
        self.fieldwise = {}
        fref = {}
        for bi, st in body.stmts():
            d = st['dst']; pp = [x for x in d['p'] if x != '*']
            if len(pp) == 1 and isinstance(pp[0], dict) and 'f' in pp[0] and '*' not in d['p'] and not (1 <= d['l'] <= body.argc):
                self.fieldwise.setdefault(d['l'], {}).setdefault(pp[0]['f'], []).append(('stmt', bi, st))
            rv = st['rv']
            if rv['k'] == 'ref' and rv.get('mut') and not d['p'] and len(rv['pl']['p']) == 1 and isinstance(rv['pl']['p'][0], dict) and 'f' in rv['pl']['p'][0]:
                fref[d['l']] = (rv['pl']['l'], rv['pl']['p'][0]['f'])
        for r, (l, f) in fref.items():
            for kind, bi, u in body.uses.get(r, ()):
                if kind == 'call':
                    m = T.ASSIGN_CALL.match(u.name)
                    if m and u.arg_local(0) == r and not u.args[0]['pl']['p']:
                        self.fieldwise.setdefault(l, {}).setdefault(f, []).append(('opassign', u.bb, (m.group(1), u.args[1], (l, f))))
        # a local with any other kind of partial write is not modelled
        for l in list(self.fieldwise):
            for k, bi, d in body.defs_of(l):
                pp = [x for x in d['dst']['p']]
                if pp and not (len(pp) == 1 and isinstance(pp[0], dict) and 'f' in pp[0]): self.fieldwise.pop(l, None); break

    def opaque(self, l):
        if l not in self.escaped: return False
        ty = self.b.locals[l].strip()
        return ty in SCALAR or bool(OWNED_COLLECTION.match(ty))

    def defs(self, l):
        if l in self._defs: return self._defs[l]
        out = []
        for k, bi, d in self.b.defs_of(l):
            if d['dst']['p']: out = None; break         # partial writes are not modelled
            out.append((k, bi, d))
        if out is not None:
            for bi, op, rhs in self.opassign.get(l, ()): out.append(('opassign', bi, (op, rhs)))
            for bi, st in self.through.get(l, ()): out.append(('stmt', bi, st))
        self._defs[l] = out
        return out

    def variant_of(self, d):
        kind, bi, x = d
        if kind == 'stmt':
            rv = x['rv']
            if rv['k'] == 'agg' and '::' in rv['adt'] and not rv['adt'].startswith('closure:'): return rv['adt'].split('::')[-1]
            return None
        if kind == 'call':
            nm = T.strip_generics_tail(x['r'] or x['f'])
            if T.FROM_RESIDUAL.search(nm): return 'Err'
            if OK_CTOR_CALL.match(nm): return 'Ok'
        return None

    def may_hold(self, d, want):
        v = self.variant_of(d)
        if v is None: return True
        return _vclass(v) == _vclass(want)

    # ---- entry points
    def op(self, operand, acc=frozenset(), depth=48, q=()):
        k = operand['k']
        if k in ('copy', 'move'):
            return self.place(operand['pl']['l'], list(operand['pl']['p']) + list(q), acc, depth)
        if k == 'const':
            n = T.expr(self.b, operand, depth=6)
            return ('proj', n, _fs(q)) if _fs(q) else n
        return ('local', -1)

    def place(self, l, p, acc, depth):
        b = self.b
        raw = fields_of_place({'l': l, 'p': p})
        def unresolved():
            return ('place', l, raw) if (raw or 1 <= l <= b.argc) else ('local', l)
        if p[:1] == ['*'] and l in self.alias: return self.place(self.alias[l], p[1:], acc, depth)       # *r with r = &mut x
        for i, x in enumerate(p):
            if isinstance(x, dict) and 'ix' in x and depth > 0:                  # slice[k] (built-in indexing) ≡ Index::index(slice, k)
                node = ('call', 'index', '<[T] as std::ops::Index<usize>>::index', [self.place(l, p[:i], acc, depth - 1), self.place(x['ix'], [], acc, depth - 1)], -1)
                rest = fields_of_place({'l': l, 'p': p[i + 1:]})
                return ('proj', node, rest) if rest else node
        q = _split(p)
        if q is None or depth <= 0 or 1 <= l <= b.argc: return unresolved()
        if q and 'f' in q[0] and l in self.fieldwise:
            # a tuple / struct local that is also written field by field (`out.0 += x`): its field is a variable of its own - defined by the field of the
            # whole-value definitions and by the assignments to that field
            key = (l, q[0]['f']); rest = q[1:]
            if key in acc: return ('acc', key) if not rest else unresolved()
            fd = self.fieldwise[l].get(q[0]['f'], [])
            whole = [d for d in b.defs_of(l) if not d[2]['dst']['p']]
            cands = [('w', d) for d in whole] + [('f', d) for d in fd]
            if not cands: return unresolved()
            nodes = []; bbs = []
            for kind, d in cands:
                sub = acc | {key} if len(cands) > 1 else acc
                nodes.append(self.apply(d, [q[0]] + rest, l, sub, depth - 1) if kind == 'w' else self.apply(d, rest, l, sub, depth - 1)); bbs.append(d[1])
            return nodes[0] if len(nodes) == 1 else ('phi', key, nodes, bbs)
        if l in acc: return ('acc', l) if not q else unresolved()
        ds = self.defs(l)
        if not ds or self.opaque(l): return unresolved()
        want = q[0]['dc'] if q and 'dc' in q[0] else None
        cands = [d for d in ds if self.may_hold(d, want)] if want else ds
        if not cands: return ('never',)                 # every definition builds another variant: this read is on no path
        if len(cands) == 1: return self.apply(cands[0], q, l, acc, depth - 1)
        nodes = [self.apply(d, q, l, acc | {l}, depth - 1) for d in cands]
        keep = [i for i, n in enumerate(nodes) if n != ('never',)]
        if not keep: return ('never',)
        nodes = [nodes[i] for i in keep]; cands = [cands[i] for i in keep]
        if all(n == nodes[0] for n in nodes) and not has_acc(nodes[0], l): return nodes[0]      # the same value on every path
        return ('phi', l, nodes, [d[1] for d in cands])

    def collected(self, node):
        """`let mut v = Vec::new(); loop { v.push(x) }; v.iter().sum()` (also what `.map(..).collect::<Vec<_>>()` + sum() is in the
        normal form) ≡ `s = 0.0; loop { s += x }`: returned as the phi of that accumulator; None if `node` is not such a sum / product"""
        n = peel(node)
        if not (n[0] == 'call' and n[1] in ('sum', 'product') and 'Iterator' in n[2] and n[3]): return None
        src = n[3][0]
        while src[0] == 'call' and ITERISH.search(T.strip_generics_tail(src[2])) and src[3]: src = src[3][0]
        if src[0] != 'local' or src[1] < 0: return None
        L = src[1]
        fill = self.vec_fill(L)
        if fill is None: return None
        new_bb, pushes = fill
        op = 'Add' if n[1] == 'sum' else 'Mul'
        return ('phi', L, [('const', '0f64' if op == 'Add' else '1f64')] + [('bin', op, ('acc', L), self.op(u.args[1])) for u in pushes], [new_bb] + [u.bb for u in pushes])

    def vec_fill(self, L):
        """a local Vec that starts empty and is only ever changed by push: (block of Vec::new, [push calls]); else None"""
        b = self.b
        if L < 0: return None
        ds = b.defs_of(L)
        if len(ds) != 1 or ds[0][0] != 'call' or not re.search(r'Vec::<.*>::(new|with_capacity)$', T.strip_generics_tail(ds[0][2]['r'] or ds[0][2]['f'])): return None
        pushes = []
        for r, x in self.alias.items():
            if x != L: continue
            for kind, bi, u in b.uses.get(r, ()):
                if kind != 'call': continue
                if u.item == 'push' and 'Vec' in u.name and u.arg_local(0) == r: pushes.append(u)
                else: return None                       # the vector is changed in another way
        if not pushes: return None
        return ds[0][1], pushes

    def apply(self, d, q, l, acc, depth):
        kind, bi, x = d
        fs = _fs(q)
        def wrap(node):
            if not fs: return node
            if node[0] == 'place': return ('place', node[1], node[2] + fs)
            if node[0] == 'proj': return ('proj', node[1], node[2] + fs)
            return ('proj', node, fs)
        if kind == 'opassign':
            if len(x) == 3:           # `l.f op= rhs` through `&mut l.f`
                op, rhs, key = x
                return wrap(('bin', op, self.place(key[0], [{'f': key[1], 'of': 'tuple'}], acc, depth), self.op(rhs, acc, depth)))
            op, rhs = x
            return wrap(('bin', op, self.place(l, [], acc, depth), self.op(rhs, acc, depth)))
        if kind == 'call':
            nm = x['r'] or x['f']; args = x['args']; tail = T.strip_generics_tail(nm)
            if len(q) >= 2 and 'dc' in q[0] and 'f' in q[1] and args:
                v = q[0]['dc']
                if T.TRY_BRANCH.search(nm) and v == 'Continue':
                    return self.op(args[0], acc, depth, OK_PROJ + q[2:])          # `?` is transparent
                if OK_CTOR_CALL.match(tail) and _vclass(v) == 'ok':
                    return self.op(args[0], acc, depth, q[2:])
            c = self.callmap.get(bi)
            node = ('call', c.item if c else tail.split('::')[-1], nm, [self.op(a, acc, depth) for a in args], bi)
            return wrap(node)
        rv = x['rv']; kk = rv['k']
        if kk == 'use': return self.op(rv['ops'][0], acc, depth, q)
        if kk == 'ref': return self.place(rv['pl']['l'], list(rv['pl']['p']) + q, acc, depth)
        if kk == 'agg':
            ops = rv['ops']; names = rv.get('fields') or []
            if len(q) >= 2 and 'dc' in q[0] and 'f' in q[1]:
                f = q[1]['f']
                i = names.index(f) if f in names else (int(f) if f.isdigit() else -1)
                if 0 <= i < len(ops): return self.op(ops[i], acc, depth, q[2:])
            elif q and 'f' in q[0] and not rv['adt'].startswith('closure:'):
                f = q[0]['f']
                i = names.index(f) if f in names else (int(f) if f.isdigit() else -1)
                if 0 <= i < len(ops): return self.op(ops[i], acc, depth, q[1:])
            return wrap(('agg', rv['adt'], [self.op(o, acc, depth) for o in ops]))
        if kk == 'bin': return wrap(('bin', rv['op'], self.op(rv['ops'][0], acc, depth), self.op(rv['ops'][1], acc, depth)))
        if kk == 'un': return wrap(('un', rv['op'], self.op(rv['ops'][0], acc, depth)))
        if kk == 'cast': return wrap(('cast', rv['to'], self.op(rv['ops'][0], acc, depth)))
        if kk == 'discr': return wrap(('discr', self.place(rv['pl']['l'], rv['pl']['p'], acc, depth)))
        return ('place', l, fs) if fs else ('local', l)


# ------------------------------------------------------------------------------------------------
# opening Option/Result combinators and calls of local closures (an extra, module-local step of the normal form)
# ------------------------------------------------------------------------------------------------
from .. import normalize as NZ
from .. import dataflow as DF
from ..facts import Body

# combinator ≡ match: every entry is rewritten into the discriminant switch a `match` lowers to, closures spliced in
#   o.unwrap_or(d)            match o { Some(x) => x,          None => d }
#   o.unwrap_or_else(f)       match o { Some(x) => x,          None => f() }
#   o.unwrap_or_default()     match o { Some(x) => x,          None => Default::default() }
#   o.map_or(d, f)            match o { Some(x) => f(x),       None => d }
#   o.map_or_else(g, f)       match o { Some(x) => f(x),       None => g() }
#   o.map(f)                  match o { Some(x) => Some(f(x)), None => None }          (Result: Ok / Err(e) => Err(e))
#   o.and_then(f)             match o { Some(x) => f(x),       None => None }          (Result: Ok / Err(e) => Err(e))
#   o.transpose()             match o { Some(Ok(x)) => Ok(Some(x)), Some(Err(e)) => Err(e), None => Ok(None) }
#   f(a, b) with f a closure  the closure's body at the place of the call  (Fn::call / FnMut::call_mut / FnOnce::call_once)
COMBINATOR = re.compile(r'^std::(option::Option|result::Result)::<.*>::(unwrap_or|unwrap_or_else|unwrap_or_default|map_or|map_or_else|map|and_then|transpose)$')
CLOSURE_CALL = re.compile(r' as std::ops::(Fn|FnMut|FnOnce)<.*>>::(call|call_mut|call_once)$')
OK0 = [{'dc': 'Ok'}, {'f': '0', 'of': 'std::result::Result::Ok'}]
ERR0 = [{'dc': 'Err'}, {'f': '0', 'of': 'std::result::Result::Err'}]


def _tuple_parts(ty):
    parts = []; depth = 0; cur = ''
    for ch in ty[1:-1]:
        if ch in '<(': depth += 1
        elif ch in '>)': depth -= 1
        if ch == ',' and depth == 0: parts.append(cur.strip()); cur = ''
        else: cur += ch
    if cur.strip(): parts.append(cur.strip())
    return parts


def _defaultable(ty):
    """types whose Default::default() the Opener writes out as a literal: f64, std collections, tuples of those"""
    ty = ty.strip()
    if ty == 'f64' or re.match(r'^std::collections::(BTreeSet|BTreeMap|HashMap|HashSet)<.*>$', ty) or re.match(r'^std::vec::Vec<.*>$', ty): return True
    if ty.startswith('(') and ty.endswith(')') and len(ty) > 2: return all(_defaultable(p) for p in _tuple_parts(ty))
    return False


class Opener(NZ.Normalizer):
    def __init__(self, F, helpers=False):
        super().__init__(F, None, True)
        # helpers=True: "existing helper reused" - calls of the crate's own inherent / free functions are replaced by their bodies too
        # (normalize does this only for functions that are new on the tree).  Trait methods stay calls: the Evaluate impls are the
        # kernels themselves, derived / std traits are value-preserving or irrelevant.
        if helpers: self.known = {n for n, b in F.bodies.items() if b.kind == 'fn' and b.hdr.get('trait')}

    def _normalize(self, d):
        return self.open(super()._normalize(self._strip_views(d)))

    def _inline_helpers(self, rw):
        super()._inline_helpers(rw)
        forwarded = False
        # an adapted iterator handed to an inlined helper (`helper(xs.iter().map(f))` + `for x in param`) reaches into_iter through the
        # parameter assignment; normalize only looks directly behind into_iter: forward plain moves of single-definition locals
        for b in rw.blocks:
            t = b['term']
            if b['cleanup'] or t['k'] != 'call' or (t.get('ri') or {}).get('item') != 'into_iter' or (t.get('ri') or {}).get('trait') != 'std::iter::IntoIterator': continue
            for _ in range(6):
                a = t['args'][0]
                if a['k'] not in ('copy', 'move') or a['pl']['p']: break
                d = rw.single_def(a['pl']['l'])
                if d is None or d[0] != 'stmt' or d[2]['rv']['k'] != 'use': break
                o = d[2]['rv']['ops'][0]
                if o['k'] != 'move' or o['pl']['p']: break
                if rw.single_def(o['pl']['l']) is None: break
                t['args'][0] = {'k': 'move', 'pl': {'l': o['pl']['l'], 'p': []}}; rw.changed = True; forwarded = True
        if forwarded:
            for b in rw.blocks:            # loops that the shared normal form has already looked at (and left) are looked at again
                t = b['term']
                if t['k'] == 'call' and t.get('desugared') is True and (t.get('ri') or {}).get('item') == 'next': t.pop('desugared')

    def _strip_views(self, d):
        """`it.cloned()` / `it.copied()` yield the same elements (ITERISH); taken out so that a closure chain below them
        (`flat_map(..).cloned().collect()`) reaches its consumer and is written as a loop by the normal form"""
        hit = [bi for bi, b in enumerate(d['blocks']) if b['term']['k'] == 'call' and b['term']['t'] >= 0 and not b['cleanup']
               and (b['term'].get('ri') or {}).get('trait') == 'std::iter::Iterator' and (b['term'].get('ri') or {}).get('item') in ('cloned', 'copied') and len(b['term']['args']) == 1]
        if not hit: return d
        import copy
        d = copy.deepcopy(d)
        for bi in hit:
            t = d['blocks'][bi]['term']
            d['blocks'][bi]['st'].append(NZ._use(t['dst'], t['args'][0], (t.get('span') or {}).get('lo', 0)))
            d['blocks'][bi]['term'] = {'k': 'goto', 't': t['t']}
        return d

    def open(self, d):
        if d.get('kind') == 'promoted': return d
        rw = NZ.Rewriter(d); rw.promoted_of = self._promoted_of
        for _ in range(40):
            if not self._open_one(rw): break
        return rw.d if rw.changed else d

    def _closure_val(self, rw, op):
        """(closure body, captured operands) behind an operand: the closure value itself, a copy or a reference to it"""
        for _ in range(8):
            if op['k'] not in ('copy', 'move') or [x for x in op['pl']['p'] if x != '*']: return None
            d = rw.single_def(op['pl']['l'])
            if d is None or d[0] != 'stmt': return None
            rv = d[2]['rv']
            if rv['k'] == 'use': op = rv['ops'][0]; continue
            if rv['k'] == 'ref' and not [x for x in rv['pl']['p'] if x != '*']: op = {'k': 'copy', 'pl': rv['pl']}; continue
            if rv['k'] == 'agg' and rv['adt'].startswith('closure:'):
                cd = self.body(rv['adt'][8:])
                return (cd, rv['ops']) if cd is not None else None
            return None
        return None

    def _open_one(self, rw):
        for bi, b in enumerate(rw.blocks):
            t = b['term']
            if b['cleanup'] or t['k'] != 'call' or t.get('opened') or t['t'] < 0: continue
            nm = T.strip_generics_tail(t['r'] or t['f'])
            try:
                cb = self.F.bodies.get(t.get('r') or '') or self.F.bodies.get(t.get('rp') or '')
                if CLOSURE_CALL.search(nm) or CLOSURE_CALL.search(T.strip_generics_tail(t.get('f') or '')) or (cb is not None and cb.kind == 'closure'):
                    t['opened'] = True
                    if self._open_call(rw, bi, t): return True
                elif (t.get('ri') or {}).get('trait') == 'std::default::Default' and (t.get('ri') or {}).get('item') == 'default' and not t['args'] and not t['dst']['p'] \
                        and _defaultable(rw.locals[t['dst']['l']]):
                    # `Default::default()` of a type whose default is a known literal: (f64, BTreeSet<u64>)::default() ≡ (0.0, BTreeSet::new())
                    t['opened'] = True
                    self._default(rw, bi, t['dst'], rw.locals[t['dst']['l']], t['t'], t.get('span')); rw.changed = True
                    return True
                else:
                    m = COMBINATOR.match(nm)
                    if m:
                        t['opened'] = True
                        if self._open_combinator(rw, bi, t, 'Option' if 'option' in m.group(1) else 'Result', m.group(2)): return True
            except (NZ._GiveUp, KeyError, IndexError, ValueError):
                t['opened'] = 'gave-up'
        return False

    def _call_closure(self, rw, cl, args, dst, cont, span):
        """entry block of the spliced closure body; result in place dst, continues at cont"""
        cd, caps = cl
        if cd['argc'] != 1 + len(args): raise NZ._GiveUp()
        self.stats['closures_inlined'] += 1
        return rw.splice(cd, [NZ._const('()', 'env')] + args, dst, cont, span, captures=caps)

    def _open_call(self, rw, bi, t):
        if len(t['args']) != 2: return False
        cl = self._closure_val(rw, t['args'][0])
        tup = t['args'][1]
        if cl is None or tup['k'] not in ('copy', 'move'): return False
        n = cl[0]['argc'] - 1
        d = rw.single_def(tup['pl']['l']) if not tup['pl']['p'] else None
        if d is not None and d[0] == 'stmt' and d[2]['rv']['k'] == 'agg' and d[2]['rv']['adt'] == 'tuple' and len(d[2]['rv']['ops']) == n:
            args = list(d[2]['rv']['ops'])
        else:
            args = [NZ._mv(tup['pl']['l'], list(tup['pl']['p']) + [{'f': str(i), 'of': 'tuple'}]) for i in range(n)]
        e = self._call_closure(rw, cl, args, t['dst'], t['t'], t.get('span'))
        rw.goto(bi, e)
        return True

    def _open_combinator(self, rw, bi, t, kind, item):
        B = rw.blocks; span = t.get('span'); line = (span or {}).get('lo', 0)
        dst = t['dst']; after = t['t']; args = t['args']
        o = args[0]
        if o['k'] not in ('copy', 'move'): return False
        closures = {}
        need = {'unwrap_or_else': [1], 'map_or': [2], 'map_or_else': [1, 2], 'map': [1], 'and_then': [1]}.get(item, [])
        for i in need:
            closures[i] = self._closure_val(rw, args[i])
            if closures[i] is None: return False              # a fn item / a closure from elsewhere: left as it is
        if kind == 'Result' and item not in ('map', 'and_then'): return False
        ol = rw.new_local(rw.locals[o['pl']['l']] if not o['pl']['p'] else '?')
        B[bi]['st'].append(NZ._use(ol, o, line))
        dl = rw.new_local('isize'); un = rw.new_block()
        yes = rw.new_block(); no = rw.new_block()               # Some / Ok ; None / Err
        B[bi]['st'].append(NZ._discr(dl, NZ._pl(ol), line))
        if kind == 'Option': B[bi]['term'] = {'k': 'switch', 'd': NZ._mv(dl), 'ts': [[0, no], [1, yes]], 'else': un}
        else: B[bi]['term'] = {'k': 'switch', 'd': NZ._mv(dl), 'ts': [[0, yes], [1, no]], 'else': un}
        payload = NZ._mv(ol, NZ.SOME0 if kind == 'Option' else OK0)
        none_adt = 'std::option::Option::None'; some_adt = 'std::option::Option::Some'
        def wrapped(blk_from, cl, wrap_adt):
            r = rw.new_local(cl[0]['locals'][0]); nxt = rw.new_block()
            rw.goto(blk_from, self._call_closure(rw, cl, [payload], NZ._pl(r), nxt, span))
            B[nxt]['st'].append(NZ._agg(dst, wrap_adt, [NZ._mv(r)], line=line)); rw.goto(nxt, after)
        # ---- the Some / Ok side
        if item in ('unwrap_or', 'unwrap_or_else', 'unwrap_or_default'):
            B[yes]['st'].append(NZ._use(dst, payload, line)); rw.goto(yes, after)
        elif item in ('map_or', 'map_or_else'):
            rw.goto(yes, self._call_closure(rw, closures[2], [payload], dst, after, span))
        elif item == 'and_then':
            rw.goto(yes, self._call_closure(rw, closures[1], [payload], dst, after, span))
        elif item == 'map':
            wrapped(yes, closures[1], some_adt if kind == 'Option' else 'std::result::Result::Ok')
        elif item == 'transpose':
            d2 = rw.new_local('isize'); okb = rw.new_block(); errb = rw.new_block()
            B[yes]['st'].append(NZ._discr(d2, {'l': ol, 'p': list(NZ.SOME0)}, line))
            B[yes]['term'] = {'k': 'switch', 'd': NZ._mv(d2), 'ts': [[0, okb], [1, errb]], 'else': un}
            inner = rw.new_local('?')
            B[okb]['st'].append(NZ._agg(inner, some_adt, [NZ._mv(ol, NZ.SOME0 + OK0)], line=line))
            B[okb]['st'].append(NZ._agg(dst, 'std::result::Result::Ok', [NZ._mv(inner)], line=line)); rw.goto(okb, after)
            B[errb]['st'].append(NZ._agg(dst, 'std::result::Result::Err', [NZ._mv(ol, NZ.SOME0 + ERR0)], line=line)); rw.goto(errb, after)
        # ---- the None / Err side
        if kind == 'Result':
            B[no]['st'].append(NZ._agg(dst, 'std::result::Result::Err', [NZ._mv(ol, ERR0)], line=line)); rw.goto(no, after)
        elif item in ('unwrap_or', 'map_or'):
            B[no]['st'].append(NZ._use(dst, args[1], line)); rw.goto(no, after)
        elif item in ('unwrap_or_else', 'map_or_else'):
            rw.goto(no, self._call_closure(rw, closures[1], [], dst, after, span))
        elif item == 'unwrap_or_default':
            self._default(rw, no, dst, rw.locals[dst['l']] if not dst['p'] else '?', after, span)
        elif item in ('map', 'and_then'):
            B[no]['st'].append(NZ._agg(dst, none_adt, [], line=line)); rw.goto(no, after)
        elif item == 'transpose':
            inner = rw.new_local('?')
            B[no]['st'].append(NZ._agg(inner, none_adt, [], line=line))
            B[no]['st'].append(NZ._agg(dst, 'std::result::Result::Ok', [NZ._mv(inner)], line=line)); rw.goto(no, after)
        rw.changed = True
        return True

    def _default(self, rw, blk, dst, ty, after, span):
        """Default::default() written out for the types that occur as evaluation results: f64 = 0.0, collections = new(), tuples component-wise"""
        B = rw.blocks; line = (span or {}).get('lo', 0); ty = ty.strip()
        if ty == 'f64':
            B[blk]['st'].append(NZ._use(dst, NZ._const('f64', '0f64'), line)); rw.goto(blk, after); return
        m = re.match(r'^std::collections::(BTreeSet|BTreeMap|HashMap|HashSet)<(.*)>$', ty) or re.match(r'^std::vec::(Vec)<(.*)>$', ty)
        if m:
            path = 'std::collections::%s::<%s>' % (m.group(1), m.group(2)) if m.group(1) != 'Vec' else 'std::vec::Vec::<%s>' % m.group(2)
            B[blk]['term'] = NZ.mk_call(path + '::new', path + '::new', None, path, 'new', [], dst, after, span); return
        if ty.startswith('(') and ty.endswith(')'):
            parts = []; depth = 0; cur = ''
            for ch in ty[1:-1]:
                if ch in '<(': depth += 1
                elif ch in '>)': depth -= 1
                if ch == ',' and depth == 0: parts.append(cur.strip()); cur = ''
                else: cur += ch
            if cur.strip(): parts.append(cur.strip())
            ops = []; cur_b = blk
            for pty in parts:
                l = rw.new_local(pty); nxt = rw.new_block()
                self._default(rw, cur_b, NZ._pl(l), pty, nxt, span)
                ops.append(NZ._mv(l)); cur_b = nxt
            B[cur_b]['st'].append(NZ._agg(dst, 'tuple', ops, line=line)); rw.goto(cur_b, after); return
        B[blk]['term'] = NZ.mk_call('<%s as std::default::Default>::default' % ty, 'std::default::Default::default', 'std::default::Default', ty, 'default', [], dst, after, span)


def opened(ctx, body, helpers=False):
    """the body with Option/Result combinators and calls of its own closures written out (identity if there are none)"""
    try:
        d = Opener(ctx.F, helpers)._normalize(body.d)         # (helpers inlined +) iterator chains as loops, then combinators / closure calls opened
    except Exception:
        return body                    # not opened: the rules see the calls and fail closed
    if d is body.d: return body
    b2 = Body(d); b2.facts = ctx.F
    return b2


def slicer_for(ctx, body, orig):
    return ctx.S if body is orig else DF.Slicer(ctx.F, depth=ctx.S.depth)


def is_item(e):
    """the current item of a `for` loop: next(it) as Some.0 ..."""
    return e[0] == 'proj' and e[1][0] == 'call' and e[1][1] == 'next' and 'Iterator' in e[1][2]


OK_PRESERVING = re.compile(r'Result::<.*>::map_err$')          # besides templates.TRANSPARENT (context / with_context / clone / deref / `?` ..): the Ok payload is unchanged


def _transparent_call(e):
    if e[0] != 'call' or not e[3]: return False
    tail = T.strip_generics_tail(e[2])
    return bool(T.TRANSPARENT.search(tail) or OK_PRESERVING.search(tail))


def peel(e):
    """strip transparent wrappers (clone/into/deref/`?`/with_context/map_err/..., Ok/Some/Continue payloads) but keep loop items;
    a projection of a transparent call is the projection of its argument"""
    while True:
        if e[0] == 'proj' and not is_item(e) and all(T.WRAPPER_OWNER.search(a) for a, f in e[2]): e = e[1]; continue
        if _transparent_call(e): e = e[3][0]; continue
        if e[0] == 'proj' and not is_item(e) and _transparent_call(e[1]): e = project(e[1][3][0], e[2]); continue
        return e


def project(node, fs):
    """apply field projections to an expression (components of freshly built tuples are selected)"""
    fs = list(fs)
    while fs and node[0] == 'agg' and node[1] == 'tuple' and fs[0][0] == 'tuple' and fs[0][1].isdigit() and int(fs[0][1]) < len(node[2]):
        node = node[2][int(fs[0][1])]; fs = fs[1:]
    if not fs: return node
    if node[0] == 'place': return ('place', node[1], node[2] + fs)
    if node[0] == 'proj': return ('proj', node[1], node[2] + fs)
    return ('proj', node, fs)


def has_acc(n, l):
    return any(x[0] == 'acc' and x[1] == l for x in T.expr_walk(n))


def recurrence(node, vx=None):
    """accumulator: phi(l, [.., op(acc, x), ..])  ->  (l, inits [(expr, bb)], updates [(op, x, bb)]); else None.
    `acc op x` and (commutative ops) `x op acc` are the same update."""
    n = peel(node)
    if vx is not None and n[0] == 'call': n = vx.collected(n) or n
    if n[0] != 'phi': return None
    l = n[1]; inits = []; ups = []
    for x, bi in zip(n[2], n[3]):
        if not has_acc(x, l): inits.append((x, bi)); continue
        a = T.arith(x)
        if a[0] == 'bin' and a[2] == ('acc', l) and not has_acc(a[3], l): ups.append((a[1], a[3], bi))
        elif a[0] == 'bin' and a[3] == ('acc', l) and not has_acc(a[2], l) and a[1] in ('Add', 'Mul'): ups.append((a[1], a[2], bi))
        elif a == ('acc', l): continue                      # x = x
        else: ups.append(('?', x, bi))
    if not ups: return None
    return l, inits, ups


def product_factors(node, via=None, vx=None):
    """leaves of a product as (leaf, block of the `*=` update it enters through | None); a product
    accumulator  p = init; loop { p *= x }  is expanded into init × x"""
    out = []
    for leaf in T.flatten(node, 'Mul'):
        r = recurrence(leaf, vx)
        if r is not None:
            l, inits, ups = r
            if len(inits) == 1 and all(op == 'Mul' for op, x, bi in ups):
                out += product_factors(inits[0][0], via, vx)
                for op, x, bi in ups: out += product_factors(x, bi, vx)
            else:
                out.append((('bad-accumulator', [op for op, x, bi in ups]), via))
            continue
        if leaf == ('const', '1f64'): continue             # p = 1.0; p *= x; .. c * p : the neutral start of a product
        out.append((leaf, via))
    return out


# ------------------------------------------------------------------------------------------------
# path-sensitive error flow
# ------------------------------------------------------------------------------------------------
DISCR = {'Ok': 0, 'Err': 1, 'None': 0, 'Some': 1, 'Continue': 0, 'Break': 1}


def place_key(body, pl, depth=0):
    """canonical name of a place read through shared references from a `&` parameter: (param, proj..); None if it is anything else.
    The discriminant of such a place cannot change during the call, so two tests of it agree (reach_v)."""
    cache = body.__dict__.setdefault('_c01_pk', {})
    k = (pl['l'], repr(pl['p']))
    if k in cache: return cache[k]
    res = None
    p = [x for x in pl['p'] if x != '*']
    if all(isinstance(x, dict) and ('f' in x or 'dc' in x) for x in p) and depth < 10:
        norm = tuple(('dc', x['dc']) if 'dc' in x else ('f', x['f']) for x in p)
        l = pl['l']
        if 1 <= l <= body.argc:
            ty = body.locals[l].lstrip()
            if ty.startswith('&') and not ty.startswith('&mut'): res = (l,) + norm
        else:
            ds = body.defs_of(l)
            if len(ds) == 1 and not ds[0][2]['dst']['p']:
                kind, bi, d = ds[0]; src = None
                if kind == 'stmt':
                    rv = d['rv']
                    if rv['k'] == 'use' and rv['ops'][0]['k'] in ('copy', 'move'): src = rv['ops'][0]['pl']
                    elif rv['k'] == 'ref' and not rv.get('mut'): src = rv['pl']
                elif d['args'] and d['args'][0]['k'] in ('copy', 'move') and re.search(r'::(as_ref|deref|borrow)$', T.strip_generics_tail(d['r'] or d['f'])):
                    src = d['args'][0]['pl']
                if src is not None:
                    base = place_key(body, src, depth + 1)
                    if base is not None: res = base + norm
    cache[k] = res
    return res


def reach_v(body, starts, stop=(), cut=(), env0=None):
    """forward reachability that knows which variant a Result/Option/ControlFlow local holds on the
    path (built by an aggregate, `from_residual`, anyhow::Ok, Try::branch of a known value; nested:
    Ok(None), Some(Ok(..))) and follows a switch on its discriminant only into the matching arm.
    Needed where a `?` inside an inlined helper / spliced closure hands its Err to an outer `?`, and
    where a combinator chain has been written out as a chain of matches.
    A known value is (variant, known value of the single payload | None)."""
    seen = set(); out = set(); work = [(s, frozenset((env0 or {}).items())) for s in starts if s not in stop]
    def known(o, e):
        if o['k'] in ('copy', 'move') and not o['pl']['p']: return e.get(o['pl']['l'])
        return None
    while work:
        bi, env = work.pop()
        if (bi, env) in seen: continue
        seen.add((bi, env)); out.add(bi)
        if len(seen) > 20000: return body.reach(starts, stop) if not cut else set(body.live)
        e = dict(env); blk = body.blocks[bi]
        for st in blk['st']:
            if 'dst' not in st: continue
            d = st['dst']; rv = st['rv']
            if d['p']:
                e.pop(d['l'], None); continue
            val = None
            if rv['k'] == 'agg' and rv['adt'].split('::')[-1] in DISCR and '::' in rv['adt']:
                val = (rv['adt'].split('::')[-1], known(rv['ops'][0], e) if len(rv['ops']) == 1 else None)
            elif rv['k'] == 'use' and rv['ops'][0]['k'] in ('copy', 'move'):
                pl = rv['ops'][0]['pl']; src = e.get(pl['l']); pp = [x for x in pl['p'] if x != '*']
                if not pp: val = src
                elif isinstance(src, tuple) and src[0] not in ('d', 'dk') and len(pp) == 2 and isinstance(pp[0], dict) and pp[0].get('dc') == src[0] and isinstance(pp[1], dict) and pp[1].get('f') == '0': val = src[1]
            elif rv['k'] == 'discr':
                src = e.get(rv['pl']['l']); pp = [x for x in rv['pl']['p'] if x != '*']
                if isinstance(src, tuple) and src[0] not in ('d', 'dk'):
                    if not pp: val = ('d', DISCR[src[0]])
                    elif len(pp) == 2 and isinstance(pp[0], dict) and pp[0].get('dc') == src[0] and isinstance(src[1], tuple) and src[1][0] not in ('d', 'dk'): val = ('d', DISCR[src[1][0]])
                if val is None:
                    # the discriminant of a place behind a `&` parameter: known if an earlier test of the same place was passed
                    pk = place_key(body, rv['pl'])
                    if pk is not None: val = ('d', e[('P',) + pk]) if ('P',) + pk in e else ('dk', pk)
            if val is None: e.pop(d['l'], None)
            else: e[d['l']] = val
        t = blk['term']; succs = body.succ(bi)
        if t['k'] == 'call':
            d = t['dst']; nm = t['r'] or t['f']; tail = T.strip_generics_tail(nm); val = None
            src = known(t['args'][0], e) if t['args'] else None
            if T.FROM_RESIDUAL.search(tail): val = ('None' if nm.lstrip('<').startswith('std::option::Option') else 'Err', None)
            elif OK_CTOR_CALL.match(tail): val = ('Ok', src)
            elif T.TRY_BRANCH.search(nm) and isinstance(src, tuple) and src[0] not in ('d', 'dk'): val = ('Continue', src[1]) if _vclass(src[0]) == 'ok' else ('Break', None)
            if d['p'] or val is None: e.pop(d['l'], None)
            else: e[d['l']] = val
        learn = {}
        if t['k'] == 'switch' and t['d']['k'] != 'const' and not t['d']['pl']['p']:
            v = e.get(t['d']['pl']['l'])
            if isinstance(v, tuple) and v[0] == 'd':
                m = {val: tg for val, tg in t['ts']}
                succs = [m.get(v[1], t['else'])]
            elif isinstance(v, tuple) and v[0] == 'dk':
                # passing the arm for value x of a stable place teaches its discriminant (not on targets shared by several values / the otherwise arm)
                tgs = [tg for val, tg in t['ts']]
                for val, tg in t['ts']:
                    if tgs.count(tg) == 1 and tg != t['else']: learn[tg] = (('P',) + v[1], val)
        fe = frozenset(e.items())
        for s in succs:
            if s not in stop and (bi, s) not in cut and not body.blocks[s]['cleanup']:
                if s in learn:
                    e2 = dict(e); e2[learn[s][0]] = learn[s][1]; work.append((s, frozenset(e2.items())))
                else: work.append((s, fe))
    return out


def must_pass_v(body, start, targets, via, cut=()):
    """templates.must_pass on reach_v: every path from `start` to a block in `targets` passes a block in `via` (edges in `cut` are not taken)"""
    return not (reach_v(body, [start], stop=set(via), cut=cut) & set(targets))


def err_index(body, local, default=0):
    """discriminant of the failure variant of a local: Err = 1 (Result), Break = 1 (ControlFlow), None = 0 (Option)"""
    ty = body.locals[local].replace('&', '').strip() if 0 <= local < len(body.locals) else ''
    if ty.startswith('std::result::Result') or ty.startswith('std::ops::ControlFlow'): return 1
    if ty.startswith('std::option::Option'): return 0
    return default


def _wrapped_flow(body, w, err_ix, depth):
    """a fallible value sits unchanged in the payload of wrapper local w (Some(r) / Ok(r)): findings like errflow for the payload"""
    if depth > 6: return [('bad', 'wrapper chain too deep')]
    oks = body.strict_ok_exits(); res = []
    for kind, bi, y in body.uses.get(w, ()):
        if kind != 'stmt': res.append(('bad', 'wrapped result passed on')); continue
        rv = y['rv']
        pl = rv['pl'] if 'pl' in rv else (rv['ops'][0]['pl'] if rv.get('ops') and rv['ops'][0]['k'] in ('copy', 'move') else None)
        if pl is None or pl['l'] != w: res.append(('bad', 'wrapped result used otherwise')); continue
        pp = [e for e in pl['p'] if e != '*']
        inner = len(pp) == 2 and isinstance(pp[0], dict) and pp[0].get('dc') in ('Some', 'Ok', 'Continue')
        if rv['k'] == 'discr':
            if not pp: continue                                         # test of the wrapper itself
            if inner:
                for k3, b3, sw in body.uses.get(y['dst']['l'], ()):
                    if k3 != 'switch': continue
                    m = {v: t for v, t in sw['ts']}
                    if reach_v(body, [m.get(err_ix, sw['else'])]) & oks: res.append(('bad', 'None/Err side of match reaches an Ok-exit'))
                    else: res.append(('ok', 'match on the wrapped value: None/Err side reaches only Err-exits'))
                continue
            res.append(('bad', 'wrapped result taken apart')); continue
        if rv['k'] == 'use' and not y['dst']['p']:
            if not pp: res += _wrapped_flow(body, y['dst']['l'], err_ix, depth + 1); continue       # the wrapper moves on
            if inner: res += errflow_v(body, y['dst']['l'], depth + 1, err_ix); continue               # the payload is taken out whole
            if len(pp) > 2 and isinstance(pp[0], dict) and pp[0].get('dc') in ('Some', 'Ok', 'Continue'): continue    # a part of the payload, after a test
        if rv['k'] == 'agg' and len(pp) > 2: continue                    # re-wrapping of a part of the payload, after a test
        res.append(('bad', 'wrapped result used otherwise'))
    if not res: res.append(('bad', 'wrapped result dropped'))
    return res


def errflow_v(body, local, depth=0, none_variant=0):
    """templates.errflow with path-sensitive reachability (reach_v) on the error side"""
    res = []
    if depth > 6: return [('bad', 'adaptor chain too deep')]
    if local == 0: return [('ok', 'returned')]
    oks = body.strict_ok_exits()
    uses = body.uses.get(local, ())
    if not uses: return [('bad', 'result unused (dropped)')]
    for kind, bi, x in uses:
        if kind == 'call':
            name = x.name
            if T.TRY_BRANCH.search(name):
                arms = T.try_arms(body, local)
                if arms:
                    if reach_v(body, [arms[1]]) & oks: res.append(('bad', 'Break arm of ? reaches an Ok-exit'))
                    else: res.append(('ok', '?'))
                else: res.append(('bad', 'Try::branch without switch'))
            elif T.ERR_ADAPTORS.search(name):
                res += [(k, '%s -> %s' % (x.item, h)) for k, h in errflow_v(body, x.dst['l'], depth + 1, none_variant)]
            elif T.ERR_BAD.search(name): res.append(('bad', 'consumed by ' + x.item))
            else: res.append(('bad', 'passed to ' + name[:60]))
        elif kind == 'stmt':
            rv = x['rv']
            if rv['k'] == 'discr':
                for k3, b3, sw in body.uses.get(x['dst']['l'], ()):
                    if k3 != 'switch': continue
                    m = {v: t for v, t in sw['ts']}
                    if reach_v(body, [m.get(err_index(body, local, none_variant), sw['else'])]) & oks: res.append(('bad', 'None/Err side of match reaches an Ok-exit'))
                    else: res.append(('ok', 'match: None/Err side reaches only Err-exits'))
            elif rv['k'] == 'use' and x['dst']['p'] == []:
                o = rv['ops'][0]
                if o['k'] in ('copy', 'move') and o['pl']['l'] == local and o['pl']['p'] == []:
                    if x['dst']['l'] == 0: res.append(('ok', 'returned'))
                    else: res += errflow_v(body, x['dst']['l'], depth + 1, none_variant)
            elif rv['k'] == 'ref':
                res += errflow_v(body, x['dst']['l'], depth + 1, none_variant)
            elif rv['k'] == 'agg' and rv['adt'].split('::')[-1] in ('Some', 'Ok', 'Continue') and len(rv['ops']) == 1 and not x['dst']['p']:
                # wrapped as it is (`Some(r)` of `opt.map(|x| fallible(x))`): what happens to the payload when it is looked at again
                res += _wrapped_flow(body, x['dst']['l'], err_index(body, local, none_variant), depth + 1)
    if not res: res.append(('bad', 'no recognised consumer'))
    return res


def failure_edges(body, local, depth=0):
    """CFG edges (switch block, target) taken exactly when the fallible value in `local` is None / Err: the Break arm of its `?`, the None/Err arm
    of a match / let-else on it - through the same adaptors, copies and wrappers that errflow_v accepts"""
    out = set()
    if depth > 8: return out
    def switch_edges(dl, variant):
        for k3, b3, sw in body.uses.get(dl, ()):
            if k3 == 'switch':
                m = {v: t for v, t in sw['ts']}
                out.add((b3, m.get(variant, sw['else'])))
    def wrapped(w, err_ix, d):
        if d > 8: return
        for kind, bi, y in body.uses.get(w, ()):
            if kind != 'stmt': continue
            rv = y['rv']
            pl = rv['pl'] if 'pl' in rv else (rv['ops'][0]['pl'] if rv.get('ops') and rv['ops'][0]['k'] in ('copy', 'move') else None)
            if pl is None or pl['l'] != w: continue
            pp = [e for e in pl['p'] if e != '*']
            inner = len(pp) == 2 and isinstance(pp[0], dict) and pp[0].get('dc') in ('Some', 'Ok', 'Continue')
            if rv['k'] == 'discr' and inner: switch_edges(y['dst']['l'], err_ix)
            elif rv['k'] == 'use' and not y['dst']['p']:
                if not pp: wrapped(y['dst']['l'], err_ix, d + 1)
                elif inner: out.update(failure_edges(body, y['dst']['l'], depth + 1))
    for kind, bi, x in body.uses.get(local, ()):
        if kind == 'call':
            if T.TRY_BRANCH.search(x.name):
                for k2, b2, y in body.uses.get(x.dst['l'], ()):
                    if k2 == 'stmt' and y['rv']['k'] == 'discr' and not [e for e in y['rv']['pl']['p'] if e != '*']: switch_edges(y['dst']['l'], 1)
            elif T.ERR_ADAPTORS.search(x.name): out |= failure_edges(body, x.dst['l'], depth + 1)
        elif kind == 'stmt':
            rv = x['rv']
            if rv['k'] == 'discr' and not [e for e in rv['pl']['p'] if e != '*']: switch_edges(x['dst']['l'], err_index(body, local, 0))
            elif rv['k'] == 'use' and not x['dst']['p'] and rv['ops'][0]['k'] in ('copy', 'move') and rv['ops'][0]['pl']['l'] == local and not rv['ops'][0]['pl']['p']:
                if x['dst']['l'] != 0: out |= failure_edges(body, x['dst']['l'], depth + 1)
            elif rv['k'] == 'ref': out |= failure_edges(body, x['dst']['l'], depth + 1)
            elif rv['k'] == 'agg' and rv['adt'].split('::')[-1] in ('Some', 'Ok', 'Continue') and len(rv['ops']) == 1 and not x['dst']['p']:
                wrapped(x['dst']['l'], err_index(body, local, 0), 0)
    return out


def other_failures(body, sources, extra_cut=()):
    """Err-exits that can be reached although none of the fallible `sources` (calls) has failed: evaluation may only fail for the reasons listed.
    Decided by cutting the failure edges of the sources and asking (variant-aware) which Err-exits are still reachable from the entry."""
    cut = set(extra_cut)
    for c in sources: cut |= failure_edges(body, c.dst['l'])
    return sorted(reach_v(body, [0], cut=cut) & body.err_exits())


def errflow_bad(body, calls):
    out = []
    for c in calls:
        bad = sorted({h for k, h in errflow_v(body, c.dst['l']) if k == 'bad'})
        if bad: out.append((c, '; '.join(bad)))
    return out


def decide(ctx, rule, template, body, problems, site=None):
    """one rule instance: ok, or one violation per problem [(detail, site)]"""
    if not problems: ctx.ok(rule, template, site or body.site())
    for detail, st in problems: ctx.bad(rule, template, body.name, detail, st or body.site())
    return not problems


# ------------------------------------------------------------------------------------------------
# loops and where their items come from
# ------------------------------------------------------------------------------------------------
# calls that give a view of the same elements in the same order (≡ iterating the collection itself)
ITERISH = re.compile(r'::(into_iter|iter|deref|as_ref|as_slice|borrow|by_ref|copied|cloned)$')


# a single value viewed as a one-element sequence: the loop over it runs exactly once and its item is the value
ONE_ELEMENT = re.compile(r'(^|::)slice::from_ref$|(^|::)iter::once$|(^|::)array::from_ref$')


def components(n):
    """structure of an iterator expression:
         ('src', expr)            the elements of a place, through ITERISH views only
         ('zip', [components])    itertools::multizip((a, b, ..)) ≡ izip!(a, b, ..) ≡ a.zip(b) (nested: ((a, b), c))
         ('index',)               the counter of enumerate()
         ('one', expr)            slice::from_ref(&x) / iter::once(x) / [x]: exactly one element, x
         ('array', [exprs])       `for x in [a, b, ..]`: the copy-pasted statements for a, b, .. folded into a loop; its item is each of them in turn
         ('take', comp, n)        it.take(n): the same elements, cut at n (leaf ('bound', n) for the validity check)
         ('range', lo, hi)        the counter of `lo..hi` (an index loop; see Kernel.msg_path: list[k] is the element of list in that loop)
         ('vec', local, push)     (added by Kernel.comp_of) the elements of a local Vec that is filled by one push per iteration of another loop
         ('other', expr)          anything else (filtered / cloned / re-ordered / derived collection)"""
    while True:
        if n[0] == 'call':
            nm = T.strip_generics_tail(n[2])
            if nm.endswith('multizip') and n[3] and n[3][0][0] == 'agg' and n[3][0][1] == 'tuple': return ('zip', [components(x) for x in n[3][0][2]])
            if n[1] == 'zip' and 'Iterator' in n[2] and len(n[3]) == 2: return ('zip', [components(n[3][0]), components(n[3][1])])
            if n[1] == 'enumerate' and 'Iterator' in n[2] and n[3]: return ('zip', [('index',), components(n[3][0])])
            if n[1] == 'take' and 'Iterator' in n[2] and len(n[3]) == 2: return ('take', components(n[3][0]), n[3][1])      # valid only up to a length of the message's own lists (loop_problems)
            if ONE_ELEMENT.search(nm) and n[3]: return ('one', n[3][0])
            if ITERISH.search(nm) and n[3]: n = n[3][0]; continue
            return ('other', n)
        if n[0] == 'place' or is_item(n): return ('src', n)
        if n[0] == 'agg' and n[1].endswith('ops::Range') and len(n[2]) == 2: return ('range', n[2][0], n[2][1])
        if n[0] == 'agg' and n[1] == 'array' and len(n[2]) == 1: return ('one', n[2][0])
        if n[0] == 'agg' and n[1] == 'array' and len(n[2]) > 1: return ('array', list(n[2]))
        return ('other', n)


def comp_leaves(c):
    if c[0] == 'zip':
        for x in c[1]: yield from comp_leaves(x)
    elif c[0] == 'take':
        yield from comp_leaves(c[1]); yield ('bound', c[2])
    else: yield c


class Kernel:
    def __init__(self, ctx, body):
        self.ctx = ctx; self.body = body; self.vx = VX(body); self.spec = None; self.scope = None; self.cut = set(); self.oks = None      # oks: the Ok-exits that count as "the" exit (shortcut exits are validated separately)
        self.for_loops = T.for_loops(body)                       # (next_call, header, some_bb, none_bb, blocks)
        self.lockstep = {}                                       # next-call block -> representative next-call block of the same hand-written zip
        self.for_loops += self._lockstep_loops()
        self.by_next = {lo[0].bb: lo for lo in self.for_loops}
        self.by_header = {lo[1]: lo for lo in self.for_loops}
        self.nat = body.loops()
        self._comp = {}

    def _lockstep_loops(self):
        """the iterator protocol by hand, several iterators in lockstep:
               while let (Some(a), Some(b), ..) = (xs.next(), ys.next(), ..) { body }     ≡     for (a, b, ..) in multizip((xs, ys, ..)) { body }
        every next() of the packed tuple becomes a loop entry of its own (its items are `tuple.k as Some.0`), all with the header of the natural loop and the
        block reached when *all* components are Some as the start of the body; canon() maps them to one loop."""
        body = self.body; known = {lo[0].bb for lo in self.for_loops}; nat = body.loops()
        groups = {}
        for c in body.calls:
            if c.item != 'next' or not (c.trait or '').endswith('Iterator') or c.bb in known or c.dst['p']: continue
            for kind, bi, st in body.uses.get(c.dst['l'], ()):
                if kind != 'stmt' or st['rv']['k'] != 'agg' or st['rv']['adt'] != 'tuple' or st['dst']['p']: continue
                idx = [i for i, o in enumerate(st['rv']['ops']) if o['k'] in ('copy', 'move') and o['pl'] == {'l': c.dst['l'], 'p': []}]
                if len(idx) != 1: continue
                tl = st['dst']['l']
                # the test `discr(tuple.i)` + switch
                for k2, b2, d in body.uses.get(tl, ()):
                    if k2 != 'stmt' or d['rv']['k'] != 'discr': continue
                    fs = [e for e in d['rv']['pl']['p'] if e != '*']
                    if len(fs) != 1 or not isinstance(fs[0], dict) or fs[0].get('f') != str(idx[0]): continue
                    for k3, b3, sw in body.uses.get(d['dst']['l'], ()):
                        if k3 == 'switch':
                            m = {v: t for v, t in sw['ts']}
                            groups.setdefault(tl, []).append((c, b3, m.get(1, sw['else']), m.get(0, sw['else'])))
        out = []
        for tl, members in groups.items():
            tests = {sb for c, sb, some, none in members}
            final = [(c, sb, some, none) for c, sb, some, none in members if some not in tests]
            if len(final) != 1: continue
            some_all, none_bb = final[0][2], final[0][3]
            cand = [(h, bl) for h, bl in nat.items() if all(c.bb in bl for c, sb, some, none in members)]
            if not cand: continue
            h, blocks = min(cand, key=lambda x: len(x[1]))
            # every member's None side leaves the loop (zip semantics: stop as soon as one is exhausted)
            if any(none in blocks for c, sb, some, none in members): continue
            rep = min(c.bb for c, sb, some, none in members)
            for c, sb, some, none in members:
                out.append((c, h, some_all, none_bb, blocks)); self.lockstep[c.bb] = rep
        return out

    def innermost(self, bb):
        c = [(h, bl) for h, bl in self.nat.items() if bb in bl]
        return min(c, key=lambda x: len(x[1]))[0] if c else None

    def comp_of(self, lo):
        k = lo[0].bb
        if k not in self._comp:
            def vec_leaves(c):
                if c[0] == 'zip': return ('zip', [vec_leaves(x) for x in c[1]])
                if c[0] == 'take': return ('take', vec_leaves(c[1]), c[2])
                if c[0] == 'other' and c[1][0] == 'local':
                    fill = self.vx.vec_fill(c[1][1])
                    if fill is not None and len(fill[1]) == 1: return ('vec', c[1][1], fill[1][0], fill[0])
                return c
            self._comp[k] = vec_leaves(components(self.vx.op(lo[0].args[0])))
        return self._comp[k]

    def navigate(self, n):
        """for a loop item `next(..) as Some.0 .f..`: (leaf component it is an element of, remaining field path, next-call block); None if n is no loop item"""
        if n[0] == 'call' and n[1] == 'next' and 'Iterator' in n[2]: n = ('proj', n, [('std::option::Option::Some', '0')])
        if not is_item(n): return None
        fs = list(n[2])
        if not fs or not fs[0][0].endswith('Option::Some'): return None
        fs = fs[1:]
        lo = self.by_next.get(n[1][4])
        if lo is None: return None
        c = self.comp_of(lo)
        while c[0] in ('zip', 'take'):
            if c[0] == 'take': c = c[1]; continue
            if not fs or fs[0][0] != 'tuple' or not fs[0][1].isdigit() or int(fs[0][1]) >= len(c[1]): return None
            c = c[1][int(fs[0][1])]; fs = fs[1:]
        return c, fs, n[1][4]

    def nest(self, bb):
        """next-call blocks of the `for` loops around a block, outermost first"""
        ls = [lo for lo in self.for_loops if bb in lo[4]]
        return [lo[0].bb for lo in sorted(ls, key=lambda lo: -len(lo[4]))]

    def canon(self, nb, depth=0):
        """loop fission: a loop over a Vec that another loop filled with one push per iteration runs in step with that loop
        (k-th element = value pushed in the k-th iteration).  Both are the same loop for "which term is this" questions."""
        nb = self.lockstep.get(nb, nb)             # the next() calls of one hand-written zip are one loop
        lo = self.by_next.get(nb)
        if lo is None or depth > 3: return nb
        leaves = list(comp_leaves(self.comp_of(lo)))
        vecs = [l for l in leaves if l[0] == 'vec']
        if not vecs: return nb
        fills = {(self.nest(v[2].bb) or [None])[-1] for v in vecs}
        if len(fills) != 1 or None in fills: return nb
        fill = list(fills)[0]
        # other lists zipped with the vector must be the ones the filling loop runs over
        flo = self.by_next[fill]
        fsrc = [self.msg_path(l[1]) for l in comp_leaves(self.comp_of(flo)) if l[0] == 'src']
        for l in leaves:
            if l[0] == 'src' and (self.msg_path(l[1]) is None or self.msg_path(l[1]) not in fsrc): return nb
            if l[0] not in ('src', 'vec', 'index', 'bound', 'one', 'array'): return nb
        return self.canon(fill, depth + 1)

    def vec_problems(self, leaf):
        """why the elements of a ('vec', ..) leaf are NOT one value per iteration of the filling loop"""
        V, push, new_bb = leaf[1], leaf[2], leaf[3]
        chain = self.nest(push.bb)
        if not chain: return ['the vector is not filled in a loop']
        why = self.every_iteration(chain, [push.bb])
        if self.nest(new_bb) != chain[:-1]: why.append('the vector is not created right before the loop that fills it')
        return why

    def counter_loop(self, idx):
        """the loop whose counter `idx` is: the item of `0..n`, or the index of enumerate(); next-call block or None"""
        i = peel(idx)
        if i[0] == 'cast': i = peel(i[2])
        r = self.navigate(i)
        if r is None: return None
        c, fs, nb = r
        return nb if c[0] in ('range', 'index') and not fs else None

    def len_lists(self, n):
        """message lists whose common prefix `n` counts: len(list) or min(.., ..) of such; None if n is anything else"""
        n = peel(n)
        if n[0] == 'call' and n[1] == 'min' and len(n[3]) == 2:
            a = self.len_lists(n[3][0]); b = self.len_lists(n[3][1])
            return None if a is None or b is None else a + b
        if n[0] == 'call' and n[1] == 'len' and len(n[3]) == 1:
            mp = self.msg_path(n[3][0])
            return [mp[0]] if mp is not None else None
        return None

    def msg_path(self, node, depth=0):
        """where in the message a value is read: (field path from self, [next-call blocks of the loops crossed]); None = not (only / not uniquely) from the message"""
        r = self.msg_paths(node, depth)
        return r[0] if len(r) == 1 else None

    def msg_paths(self, node, depth=0):
        """all places in the message a value may be read from: [(field path from self, [next-call blocks of the loops crossed])]; [] = not (only) from the message.
           element idioms:  item of a loop over the list (through views / zips)  ≡  list[k] with k the counter of `0..n` or of enumerate()
                            ≡  item of a loop over a Vec into which the value was pushed by the loop over the list (loop fission)
                            ≡  item of a loop over [a, b, ..] / [x] / once(x): each of the listed values (several alternatives)"""
        n = peel(node)
        if n[0] == 'call' and n[1] == 'next' and 'Iterator' in n[2]: n = ('proj', n, [('std::option::Option::Some', '0')])
        if n[0] == 'place' and n[1] == 1: return [(list(n[2]), [])]
        if depth >= 6: return []
        rest = []
        if n[0] == 'proj' and n[1][0] == 'call' and n[1][1] == 'index': rest = list(n[2]); n = n[1]
        if n[0] == 'call' and n[1] == 'index' and 'Index<usize>' in n[2] and len(n[3]) == 2:
            base = self.msg_path(n[3][0], depth + 1); ctr = self.counter_loop(n[3][1])
            if base is None or ctr is None: return []
            return [(base[0] + rest, base[1] + [ctr])]
        r = self.navigate(n)
        if r is not None:
            c, fs, nb = r
            if c[0] == 'vec': return self.msg_paths(project(self.vx.op(c[2].args[1]), fs), depth + 1)
            if c[0] in ('one', 'array'):
                out = []
                for e in ([c[1]] if c[0] == 'one' else c[1]):
                    base = self.msg_paths(project(e, fs), depth + 1)
                    if not base: return []
                    out += [(b0, b1 + [nb]) for b0, b1 in base]
                return out
            if c[0] != 'src': return []
            return [(b0 + fs, b1 + [nb]) for b0, b1 in self.msg_paths(c[1], depth + 1)]
        return []

    def vec_element(self, n):
        """the value pushed for an item of a loop over a filled Vec (see canon); None if n is not such an item"""
        r = self.navigate(n)
        if r is None or r[0][0] != 'vec': return None
        return project(self.vx.op(r[0][2].args[1]), r[1])

    def inline_vecs(self, n, depth=0):
        """replace items of loops over filled Vecs by the pushed values, everywhere in an expression"""
        if not isinstance(n, tuple) or not n or not isinstance(n[0], str) or depth > 12: return n
        if n[0] != 'phi':
            r = self.vec_element(n)
            if r is not None: return self.inline_vecs(r, depth + 1)
        out = []
        for x in n:
            if isinstance(x, tuple) and x and isinstance(x[0], str): out.append(self.inline_vecs(x, depth + 1))
            elif isinstance(x, list): out.append([self.inline_vecs(y, depth + 1) if isinstance(y, tuple) and y and isinstance(y[0], str) else y for y in x])
            else: out.append(x)
        return tuple(out)

    def index_unguarded(self, f):
        """None if the infallible read `state.entries[id]` (expr f) comes after a complete fallible check of the same ids; else the reason.
        A check = a state lookup (get ..? / match) or a membership test (contains_key whose false side only errs) keyed by the same message path, on every
        iteration of loops over the message's own lists, and before the read on every path."""
        body = self.body; ctx = self.ctx
        r = peel(f[3][0])
        if not (r[0] == 'place' and r[1] == 2): return 'indexing of another state'
        want = self.msg_paths(f[3][1])
        if not want: return 'indexing with a key that is not an id of the message'
        checks = [(c, c.args[1]) for c in state_lookups(ctx, body)] + [(c, c.args[1]) for c in membership_tests(ctx, body)]
        for fields, loops in want:
            ok = False
            for c, key in checks:
                for cf, cl in self.msg_paths(self.vx.op(key)):
                    if cf != fields: continue
                    if self.every_iteration(cl, [c.bb]) or any(self.loop_problems(nb) for nb in cl): continue
                    first = self.by_next[cl[0]][1] if cl else c.bb
                    if f[4] >= 0 and (body.dominates(first, f[4]) and (c.bb not in body.reach([f[4]]) or body.dominates(c.bb, f[4]))): ok = True
            if not ok: return 'indexing without a complete check of the same ids before it'
        return None

    def loop_lists(self, nb, depth=0):
        """field paths of the message lists a loop runs over (any of them empty => no iteration)"""
        lo = self.by_next.get(nb); out = []
        if lo is None or depth > 3: return out
        for leaf in comp_leaves(self.comp_of(lo)):
            if leaf[0] == 'src':
                mp = self.msg_path(leaf[1])
                if mp is not None: out.append(mp[0])
            elif leaf[0] == 'range': out += self.len_lists(leaf[2]) or []
            elif leaf[0] == 'bound': out += self.len_lists(leaf[1]) or []
            elif leaf[0] == 'vec':
                for nb2 in self.nest(leaf[2].bb)[-1:]: out += self.loop_lists(nb2, depth + 1)
        return out

    def loop_problems(self, nb):
        """why the loop with next-call block nb does NOT run over the message's own lists, element by element"""
        lo = self.by_next.get(nb)
        if lo is None: return ['loop not found']
        out = []
        # the loop's iterator is advanced by this loop only (with the protocol written by hand - `while let Some(x) = it.next()` - the body could pull more)
        a0 = lo[0].args[0]
        it = self.vx.alias.get(a0['pl']['l'], a0['pl']['l']) if a0['k'] in ('copy', 'move') else None
        if it is not None:
            for c in self.body.calls:
                if c.bb == nb or not c.args or c.args[0]['k'] not in ('copy', 'move'): continue
                l0 = c.args[0]['pl']['l']
                if (self.vx.alias.get(l0, l0) == it) and c.bb in self.body.reach([lo[1]]) and '&mut' in self.body.locals[l0]:
                    out.append('the iterator of the loop is also advanced elsewhere (%s)' % c.item)
        for leaf in comp_leaves(self.comp_of(lo)):
            k = leaf[0]
            if k == 'index': continue
            if k == 'array':
                for e in leaf[1]:
                    if not self.msg_paths(e): out.append('a loop runs over listed values that are not read from the message (%s)' % T.expr_str(e))
            elif k == 'one':
                if self.msg_path(leaf[1]) is None: out.append('a loop runs over a single value that is not read from the message (%s)' % T.expr_str(leaf[1]))
            elif k == 'src':
                if self.msg_path(leaf[1]) is None: out.append('a loop iterates a derived collection instead of the message\'s own list (%s)' % T.expr_str(leaf[1]))
            elif k == 'range':
                # index loop: from 0 to the length of (the common prefix of) the kernel's own lists
                lists = self.len_lists(leaf[2])
                own = [p[:i] for p in [self.spec['coef']] + self.spec['ids'] for i in range(1, len(p) + 1)]
                if peel(leaf[1]) != ('const', '0_usize'): out.append('an index loop does not start at 0 (%s)' % T.expr_str(leaf[1]))
                if lists is None or not all(any(same_path(l, o) for o in own) for l in lists):
                    out.append('an index loop does not run to the length of the message\'s own lists (%s)' % T.expr_str(leaf[2]))
            elif k == 'bound':
                lists = self.len_lists(leaf[1])
                own = [p[:i] for p in [self.spec['coef']] + self.spec['ids'] for i in range(1, len(p) + 1)]
                if lists is None or not all(any(same_path(l, o) for o in own) for l in lists):
                    out.append('the loop is cut by take(%s), which is not a length of the message\'s own lists' % T.expr_str(leaf[1]))
            elif k == 'vec':
                w = self.vec_problems(leaf)
                if w: out.append('a loop runs over a vector that does not hold one value per term: %s' % '; '.join(w))
                else:
                    for nb2 in self.nest(leaf[2].bb)[-1:]: out += self.loop_problems(nb2) if nb2 != nb else []
            else:
                out.append('a loop iterates a derived collection instead of the message\'s own list (%s)' % T.expr_str(leaf[1]))
        return out

    def every_iteration(self, chain, sites):
        """reasons why `sites` (blocks) are NOT passed once per element of the nested lists crossed by the loops `chain` (outermost first)"""
        body = self.body; oks = self.oks if self.oks is not None else body.strict_ok_exits(); why = []
        los = [self.by_next.get(nb) for nb in chain]
        if any(lo is None for lo in los): return ['loop not found']
        if not los:
            if not any(all(body.dominates(s, e) for e in oks) for s in sites): why.append('not on every path to the Ok-exit')
            return why
        L1 = los[0]
        if self.scope is not None:
            # a phase that only runs on one side of a test (the written-out evaluation of an optional part): "always" means on every
            # path from the entry of that side to where the next phase starts
            entry, exits = self.scope
            if not must_pass_v(body, entry, exits, {L1[1]}): why.append('the loop does not dominate the Ok-exit')
            if not must_pass_v(body, L1[2], set(exits) | set(oks), {L1[1]}): why.append('the loop can be left before the last element without an error')
        else:
            if not all(body.dominates(L1[1], e) for e in oks): why.append('the loop does not dominate the Ok-exit')
            if not must_pass_v(body, L1[2], oks, {L1[1]}): why.append('the loop can be left before the last element without an error')
        for Lo, Li in zip(los, los[1:]):
            if Li[1] not in Lo[4]: why.append('loops are not nested'); continue
            if not must_pass_v(body, Lo[2], {Lo[1]}, {Li[1]}, self.cut): why.append('the inner loop is skipped on some path')
            if not must_pass_v(body, Li[2], {Lo[1]}, {Li[1]}): why.append('the inner loop can be left before its last element')
        Lk = los[-1]
        if not must_pass_v(body, Lk[2], {Lk[1]}, set(sites)): why.append('a path through the loop body skips it')
        return why


def same_path(got, want):
    return got is not None and len(got) == len(want) and all(f == wf and (a == wa or a.endswith('::' + wa)) for (a, f), (wa, wf) in zip(got, want))


def live_closures(ctx, body, depth=0):
    """closure bodies whose value is still used in `body` (a spliced closure leaves a dead aggregate behind), transitively.
    Not ctx.F.closures_of: the normal form also drops closures from that list which it looked at but then left in place."""
    out = []
    def live(l, seen):
        # used by a call / switch / the result, directly or through copies and references (a spliced call leaves dead `&closure` temporaries)
        if l in seen: return False
        seen.add(l)
        for kind, bi, u in body.uses.get(l, ()):
            if kind != 'stmt' or u['dst']['p'] or u['dst']['l'] == 0 or u['rv']['k'] not in ('use', 'ref'): return True
            if live(u['dst']['l'], seen): return True
        return False
    for bi, st, path in body.closures_created():
        cb = ctx.F.bodies.get(path)
        if cb is None or st['dst']['p'] or not live(st['dst']['l'], set()) or depth > 3: continue
        out.append(cb); out += live_closures(ctx, cb, depth + 1)
    return out


def lookup_receiver(body, c):
    """the map a lookup reads, as a value expression: through copies, references and fields of local structs that carry the state
    (`reader.state.entries` with reader = Reader { state, .. }) back to a parameter"""
    vx = getattr(body, '_c01_vx', None)
    if vx is None: vx = body._c01_vx = VX(body)
    return peel(vx.op(c.args[0]))


def state_lookups(ctx, body, state_param=2):
    out = []
    for c in body.calls:
        if c.item == 'get' and re.search(STATE_GET, c.name):
            fs, root, _ = T.access_path(body, c.args[0])
            if ('v1::State', 'entries') in fs or ('v1::State', 'entries') in T.expr_fields(lookup_receiver(body, c)): out.append(c)
    return out


def in_given_state(body, c, param=2):
    r = lookup_receiver(body, c)
    return T.access_path(body, c.args[0])[1] == param or (r[0] == 'place' and r[1] == param and r[2][-1:] == [('v1::State', 'entries')])


def membership_tests(ctx, body):
    """`state.entries.contains_key(id)` tests whose false side reaches no Ok-exit (ensure!(contains_key) / if !contains_key { bail! })"""
    out = []
    for c in body.calls:
        if c.item == 'contains_key' and re.search(r'HashMap::<u64, f64>::contains_key', c.name) and len(c.args) == 2:
            if ('v1::State', 'entries') not in T.expr_fields(lookup_receiver(body, c)): continue
            if any(g.requires(True) for g in T.guards_from_call(body, c)): out.append(c)
    return out


def membership_failure_edges(body, c):
    return {(g.switch_bb, g.false_bb) for g in T.guards_from_call(body, c) if g.requires(True) and g.false_bb is not None}


def is_lookup(e):
    e = peel(e)
    return e[0] == 'call' and e[1] == 'get' and bool(re.search(STATE_GET, e[2])) and len(e[3]) == 2


STATE_INDEX = re.compile(r'HashMap<u64, f64> as std::ops::Index<&.*u64>>::index$')


def is_indexed_lookup(e):
    """`state.entries[&id]`: infallible indexing of the state's map (panics on a missing id)"""
    e = peel(e)
    return e[0] == 'call' and e[1] == 'index' and bool(STATE_INDEX.search(T.strip_generics_tail(e[2]))) and len(e[3]) == 2 \
        and ('v1::State', 'entries') in T.expr_fields(peel(e[3][0]))


def returned_pair(body):
    """(exit block, value operand, set operand) of the `Ok((value, set))` exits"""
    out = []
    for e, k, st in body.ret_assignments():
        if k == 'ok':
            op = st['rv']['ops'][0]
            if op['k'] in ('copy', 'move'):
                l = op['pl']['l']
                for _ in range(4):          # through plain copies of the pair
                    ds = body.defs_of(l)
                    if len(ds) == 1 and ds[0][0] == 'stmt' and ds[0][2]['rv']['k'] == 'use' and ds[0][2]['rv']['ops'][0]['k'] in ('copy', 'move') and not ds[0][2]['rv']['ops'][0]['pl']['p'] and not ds[0][2]['dst']['p']:
                        l = ds[0][2]['rv']['ops'][0]['pl']['l']
                    else: break
                fieldwise = any(d['dst']['p'] for k2, b2, d in body.defs_of(l)) or any(st['rv']['k'] == 'ref' and st['rv'].get('mut') and st['rv']['pl']['l'] == l and st['rv']['pl']['p'] for b2, st in body.stmts())
                for k2, b2, d in body.defs_of(l):
                    if k2 == 'stmt' and d['rv']['k'] == 'agg' and d['rv']['adt'] == 'tuple' and len(d['rv']['ops']) == 2 and not d['dst']['p']:
                        if fieldwise:
                            # `let mut out = (init, set); out.0 += ..; out.1.insert(..); Ok(out)`: the components as they are at the exit
                            out.append((e, {'k': 'copy', 'pl': {'l': l, 'p': [{'f': '0', 'of': 'tuple'}]}}, {'k': 'move', 'pl': {'l': l, 'p': [{'f': '1', 'of': 'tuple'}]}}))
                        else:
                            out.append((e, d['rv']['ops'][0], d['rv']['ops'][1]))
    return out


# ------------------------------------------------------------------------------------------------
# the three kernels
# ------------------------------------------------------------------------------------------------
def kernel_rules(ctx, short):
    spec = KERNELS[short]; ty = spec['ty']; R = 'C01'
    orig = ctx.method(R + '.anchor/%s::evaluate' % short, ty, 'evaluate', trait='Evaluate')
    if orig is None: return
    body = opened(ctx, orig, helpers=True)
    K = Kernel(ctx, body); vx = K.vx; K.S = slicer_for(ctx, body, orig); K.spec = spec
    fn = body.name

    # ---- C01.lookup: a missing variable is an error, for every lookup in the given state
    lookups = state_lookups(ctx, body)
    closures = live_closures(ctx, body)
    hidden = [(cb, c) for cb in closures for c in state_lookups(ctx, cb)]
    decide(ctx, R + '.lookup/%s/missing-is-error' % short, 'T-ERRFLOW', body,
           [('state lookup: ' + why, body.site(c.bb)) for c, why in errflow_bad(body, lookups)] +
           [('state lookup: ' + why, cb.site(c.bb)) for cb in closures for c, why in errflow_bad(cb, state_lookups(ctx, cb))] +
           ([] if lookups or hidden or membership_tests(ctx, body) else [('no state lookup in the evaluator', None)]))      # contains_key + bail! is a lookup whose miss is an error by construction
    # evaluation fails ONLY when a variable is missing (or the nested evaluation of a part failed): no Err-exit is reachable unless a state lookup
    # came back empty / an Evaluate::evaluate call returned Err.  Consumers that run closures with lookups inside (weak fallback) count as sources too.
    sources = list(lookups) + [c for c in body.calls if c.item == 'evaluate' and (c.trait or '').endswith('Evaluate')]
    hidden_paths = {cb.name for cb, c in hidden}
    for c in body.calls:
        for a in c.args:
            if a['k'] in ('copy', 'move') and not a['pl']['p']:
                for k2, b2, d in body.defs_of(a['pl']['l']):
                    if k2 == 'stmt' and d['rv']['k'] == 'agg' and d['rv']['adt'].startswith('closure:') and d['rv']['adt'][8:] in hidden_paths and c not in sources: sources.append(c)
    decide(ctx, R + '.lookup/%s/only-missing-variable-fails' % short, 'T-ERRFLOW', body,
           [('evaluation can fail although no variable is missing from the state', body.site(e))
            for e in other_failures(body, sources, set().union(*[membership_failure_edges(body, c) for c in membership_tests(ctx, body)]) if membership_tests(ctx, body) else ())])
    decide(ctx, R + '.lookup/%s/state' % short, 'T-CARRY', body,
           [('lookup is not in the given state', body.site(c.bb)) for c in lookups if not in_given_state(body, c)])
    # lookups hidden in closures that the normal form could not splice cannot be followed: fail closed (but see weak_kernel)
    def visible_rule():
        decide(ctx, R + '.lookup/%s/visible' % short, 'T-ERRFLOW', body,
               [('a state lookup sits in closure %s whose use is not recognised' % cb.name.split('::')[-1], cb.site(c.bb)) for cb, c in hidden])

    pairs = returned_pair(body)
    # guard turned into an early return: `if list.is_empty() { return Ok((start value, start set)) }` is the main exit after zero iterations.
    # Exits inside the true-side of an is_empty() test are candidates; they are validated once the term loop is known (shortcut_problems).
    guarded = {}
    for c, sb, tgt in empty_guards(body):
        for pr in pairs:
            if pr[0] in body.edge_region(sb, tgt): guarded.setdefault(pr[0], []).append(c)
    mains = [pr for pr in pairs if pr[0] not in guarded]
    shortcuts = [pr for pr in pairs if pr[0] in guarded] if len(mains) == 1 else []
    done = []
    def result_rule(problems=()):
        if done: return
        done.append(1)
        probs = list(problems)
        if len(mains) != 1: probs.append(('expected one Ok((value, ids)) exit, found %d' % len(pairs), None))
        # no success exit that bypasses the term loop: every Ok-exit is the main exit or a validated empty-list shortcut
        for e in sorted(body.strict_ok_exits() - {pr[0] for pr in pairs}):
            probs.append(('a success exit returns something that is not the pair (value, ids) built by this evaluator', body.site(e)))
        decide(ctx, R + '.fields/%s/result' % short, 'T-CARRY', body, probs)
    if len(mains) != 1:
        result_rule(); visible_rule(); return
    exit_bb, vop, sop = mains[0]
    K.oks = {exit_bb}

    # ---- the value: init + Σ term
    value = K.inline_vecs(vx.op(vop))              # loop fission: elements of a filled Vec are the values pushed
    # `sum = init; .. ; Ok((sum, ids))`  ≡  `sum = 0.0; .. ; Ok((sum + init, ids))`: summands added at the exit count as part of the start value
    leaves = T.flatten(value, 'Add')
    recs = [(x, recurrence(x, vx)) for x in leaves]
    rec = [r for x, r in recs if r is not None][0] if len([1 for x, r in recs if r is not None]) == 1 else None
    if rec is not None:
        # several definitions of the accumulator before the loop are alternatives (the last one on a path wins), not summands
        rec = (rec[0], [(start_value(rec[0], rec[1]), rec[1][0][1])] + [(x, exit_bb) for x, r in recs if r is None], rec[2])
    else:
        un = unopened_consumers(value)
        if un and not any(r is not None for x, r in recs):
            # the sum is formed inside an iterator consumer that the normal form leaves closed (e.g. `.map(..).sum::<Result<f64>>()`):
            # the precise rules cannot be decided; weaker necessary conditions of the same clauses are
            result_rule([('an early exit beside a sum that the rules cannot open', body.site(e)) for e, v, st in shortcuts]); weak_kernel(ctx, K, short, spec, vop, sop, un[0], hidden); return
    visible_rule()
    ups = rec[2] if rec else []
    excl = all(u2[2] not in body.reach(body.succ(u1[2]), stop={K.innermost(u1[2])}) for u1 in ups for u2 in ups if u1 is not u2 and K.innermost(u1[2]) is not None)
    sum_ok = bool(ups) and all(op == 'Add' for op, x, bi in ups) and excl
    ctx.check(sum_ok, R + '.fields/%s/sum-is-added' % short, 'T-BRANCHFX', fn,
              'the result is not accumulated by `sum += term` once per term (found %s%s)' % ([op for op, x, bi in ups] if rec else T.expr_str(peel(value)), '' if excl else ', several updates on one path'), body.site())
    if not rec:
        result_rule([('an early exit beside a value that is not accumulated', body.site(e)) for e, v, st in shortcuts]); return
    acc_l, inits, ups = rec
    heads = {K.innermost(bi) for op, x, bi in ups}
    # "callee written out in place": the evaluation of the optional part as a second loop before the main loop (instead of part.evaluate(state)?)
    part_loop = None; ups_part = []
    if len(heads) == 2 and spec.get('part'):
        main = [h for h in heads if h in K.by_header and all(body.dominates(h, e) for e in K.oks)]
        rest = [h for h in heads if h not in main]
        if len(main) == 1 and len(rest) == 1 and rest[0] in K.by_header and main[0] in body.reach([rest[0]]) and rest[0] not in body.reach([main[0]]):
            part_loop = K.by_header[rest[0]]
            ups_part = [u for u in ups if K.innermost(u[2]) == rest[0]]; ups = [u for u in ups if K.innermost(u[2]) == main[0]]; heads = set(main)
    Lp = K.by_header.get(list(heads)[0]) if len(heads) == 1 else None
    ctx.check(Lp is not None, R + '.every-term/%s/loop' % short, 'T-LOOPMUST', fn, 'the updates of the sum are not in one `for`-like loop over the terms (loop headers %s)' % sorted(heads, key=str), body.site(ups[0][2]))
    if Lp is None:
        result_rule([('an early exit, but the term loop is not recognised', body.site(e)) for e, v, st in shortcuts]); return
    term_loop = Lp[0].bb
    result_rule([(w, body.site(e)) for e, v, st in shortcuts for w in shortcut_problems(K, (e, v, st), guarded[e], term_loop, rec, sop)])
    tl = K.canon(term_loop)                # after loop fission the loop that computed the terms stands for the loop that adds them
    def loop_at(bb):
        h = K.innermost(bb)
        return K.canon(K.by_header[h][0].bb) if h in K.by_header else None

    # ---- every term: the term loop iterates the message's own lists, completely; the update lies on every path
    part_info = written_out_part(ctx, K, short, spec, inits, Lp, part_loop, ups_part, sop) if part_loop is not None else None
    why = K.every_iteration([term_loop], [bi for op, x, bi in ups]) + (part_info['every'] if part_info else [])
    ctx.check(not [w for w in why if 'dominate' in w], R + '.every-term/%s/dominates' % short, 'T-MUSTCALL', fn, 'term loop does not dominate the Ok-exit', body.site(Lp[0].bb))
    ctx.check(not [w for w in why if 'left before' in w], R + '.every-term/%s/all-terms' % short, 'T-LOOPMUST', fn, 'the term loop can end before the last term without an error', body.site(Lp[0].bb))
    ctx.check(not [w for w in why if 'skips' in w], R + '.every-term/%s/accumulated' % short, 'T-LOOPMUST', fn, 'a term can be skipped without being added', body.site(ups[0][2]))

    # ---- init
    if part_info is None: init_check(ctx, K, short, spec['init'], inits, Lp)

    # ---- a special case split off inside the loop: `if term.ids.is_empty() { sum += term.coefficient; continue; }` is the general update after zero
    # iterations of the id loop.  Such an update is validated here (guard = emptiness of the term's own id list, term = the bare coefficient); the guarded edge is
    # then not a way of "skipping" the id loop for the every-iteration questions.
    short_ups = []; short_probs = []
    if len(ups) > 1:
        for u in list(ups):
            for c, sb, tgt in empty_guards(body):
                if u[2] not in body.edge_region(sb, tgt): continue
                mp = K.msg_path(vx.op(c.args[0]))
                fac = product_factors(u[1], None, vx)
                cm = [K.msg_path(f) for f, via in fac]
                if mp is not None and any(same_path(mp[0], p) for p in spec['ids']) and [K.canon(x) for x in mp[1]] == [tl] \
                        and len(fac) == 1 and cm[0] is not None and same_path(cm[0][0], spec['coef']) and [K.canon(x) for x in cm[0][1]] == [tl] and len(ups) - len(short_ups) > 1:
                    short_ups.append(u); K.cut.add((sb, tgt)); break
        ups = [u for u in ups if u not in short_ups]

    # ---- the term: coefficient × Π state[id]   (main phase, plus the written-out part if there is one)
    A = term_analysis(K, spec, ups, term_loop)
    if part_info is not None:
        for k in ('other', 'once', 'loops'): A[k] += part_info['terms'][k]
        A['facs'] += part_info['terms']['facs']; A['shape_ok'] = A['shape_ok'] and part_info['terms']['shape_ok']
        A['keys_ok'] = A['keys_ok'] and part_info['terms']['keys_ok']; A['keys'] += part_info['terms']['keys']; A['want'] += part_info['terms']['want']
    ctx.check(A['shape_ok'], R + '.fields/%s/term-is-coefficient-times-values' % short, 'T-BRANCHFX', fn,
              'term is not coefficient × Π value(id): factors = %s' % A['facs'], body.site(ups[0][2]), factors=A['facs'])
    ctx.check(A['keys_ok'], R + '.fields/%s/lookup-keys' % short, 'T-CARRY', fn, 'values are looked up under %s, expected %s' % (A['keys'], A['want']), body.site(ups[0][2]))
    decide(ctx, R + '.fields/%s/one-factor-per-id' % short, 'T-LOOPMUST', body, A['once'])
    decide(ctx, R + '.every-term/%s/iterates-message-directly' % short, 'T-LOOPMUST', body, A['loops'])

    # ---- used ids
    used_rules(ctx, K, short, spec, sop, part_info['used'] if part_info is not None else None)


def term_analysis(K, spec, ups, term_loop):
    """the updates `sum += term` of one phase against  term = coefficient × Π state[id]  with the paths of `spec`"""
    body = K.body; vx = K.vx
    tl = K.canon(term_loop)                # after loop fission the loop that computed the terms stands for the loop that adds them
    def loop_at(bb):
        h = K.innermost(bb)
        return K.canon(K.by_header[h][0].bb) if h in K.by_header else None
    loops_used = {term_loop}
    coefs = []; looks = []; other = []
    for op, term, ubi in ups:
        for f, via in product_factors(term, None, vx):
            if f[0] == 'bad-accumulator': other.append((f, via)); continue
            if is_lookup(f): looks.append((peel(f), via, ubi)); continue
            if is_indexed_lookup(f):
                # `entries[id]`: a missing id panics, it never yields a number - but the property wants an Err: accepted only behind a complete
                # fallible check of the same ids ("validate first, then compute")
                w = K.index_unguarded(peel(f))
                if w is None: looks.append((peel(f), via, ubi))
                else: other.append((('call', 'unchecked ' + w, '', [], -1), via))
                continue
            mp = K.msg_path(f)
            if mp is not None and same_path(mp[0], spec['coef']): coefs.append((f, via, ubi, mp))
            else: other.append((f, via))
    nups = len(ups)
    facs = ['%s' % T.expr_str(f[0]) if f[0][0] != 'bad-accumulator' else 'accumulator updated by %s' % f[0][1] for f in coefs + looks + other]
    # a lookup keyed by the item of `for id in [a, b]` stands for one lookup per listed value
    keyed = [(f, via, ubi, mp) for f, via, ubi in looks for mp in (K.msg_paths(f[3][1]) or [None])]
    shape_ok = len(coefs) == nups and not other and len(keyed) == nups * len(spec['ids'])
    # each lookup is keyed by an id of this term, and multiplied in exactly once per occurrence of the id
    keys = []; once = []
    for f, via, ubi, mp in keyed:
        hit = [i for i, p in enumerate(spec['ids']) if mp is not None and same_path(mp[0], p)]
        keys.append(spec['ids'][hit[0]][-1][1] if hit else None)
        if mp is None: continue
        loops_used |= set(mp[1])
        # the factor enters the product in the loop that yields its id (directly in the term, or through a `p *= x` update)
        site_loop = loop_at(via if via is not None else ubi)
        key_loop = K.canon(mp[1][-1]) if mp[1] else None
        if [K.canon(x) for x in mp[1][:1]] != [tl] or site_loop != key_loop:
            once.append(('a looked-up value is not multiplied in exactly once per id of the term (update in loop bb%s, id from loop bb%s)' % (site_loop, key_loop), body.site(via if via is not None else ubi)))
        elif via is not None:
            chain = K.nest(via); loops_used |= set(chain)          # the loops the `*=` sits in (after fission: the loop over the collected factors)
            if [K.canon(x) for x in chain] != [K.canon(x) for x in mp[1]]: w = ['the update is not nested in the loops that yield the id']
            else: w = K.every_iteration(chain, [via])
            if w: once.append(('the factor of an id can be skipped: %s' % '; '.join(w), body.site(via)))
    for f, via, ubi, mp in coefs:
        loops_used |= set(mp[1])
        if [K.canon(x) for x in mp[1]] != [tl] or via is not None and loop_at(via) != tl:
            once.append(('the coefficient is not the one of the current term', body.site(ubi)))
    want = sorted(p[-1][1] for p in spec['ids'])
    keys_ok = sorted(x for x in keys if x) == want * nups and None not in keys
    # the loops that yield coefficient and ids run over the message's own lists (no filtered, de-duplicated or re-ordered copy)
    probs = []
    for nb in sorted(loops_used):
        probs += [(w, body.site(nb)) for w in K.loop_problems(nb)]
    # an id loop that is not recognised at all (key does not resolve): report the loop of the lookup
    for f, via, ubi in looks:
        if not K.msg_paths(f[3][1]):
            probs.append(('the id of a lookup does not come straight from the message\'s own list (%s)' % T.expr_str(f[3][1]), body.site(f[4] if len(f) > 4 else ubi)))
    return dict(shape_ok=shape_ok, facs=facs, keys=keys, want=want, keys_ok=keys_ok, once=once, loops=probs, other=other)


# ------------------------------------------------------------------------------------------------
# fallback: the accumulation is hidden in an iterator consumer that the normal form does not open
# ------------------------------------------------------------------------------------------------
FULL_CONSUMERS = ('sum', 'product', 'fold', 'try_fold', 'for_each', 'try_for_each', 'collect')      # visit every element (unlike find / any / all / position / nth / last ..)
PASS_ADAPTORS = ('map', 'inspect', 'copied', 'cloned', 'by_ref', 'enumerate', 'zip')             # one output element per input element
PRECISE = {'fields': ['sum-is-added', 'init', 'term-is-coefficient-times-values', 'lookup-keys', 'one-factor-per-id'],
           'every-term': ['loop', 'dominates', 'all-terms', 'accumulated', 'iterates-message-directly'],
           'used': ['ids', 'into-result-set', 'every-id'], 'lookup': ['visible']}
DERIVING = re.compile(r'::(dedup\w*|sort\w*|retain|truncate|drain|filter|skip|take|step_by|take_while|skip_while|filter_map|nth|map_while|rev|unique|dedup_by_key)(::<.*>)?$')


def unopened_consumers(value):
    """calls of Iterator consumers (with a closure somewhere below) left in a value expression"""
    out = []
    for x in T.expr_walk(value):
        if x[0] == 'call' and 'Iterator' in x[2] and x[3] and any(y[0] == 'agg' and y[1].startswith('closure:') for y in T.expr_walk(x)):
            if not any(x is not o and any(y is x for y in T.expr_walk(o)) for o in out): out.append(x)
    return out[:1] if out else []


def weak_kernel(ctx, K, short, spec, vop, sop, consumer, hidden):
    R = 'C01'; body = K.body; fn = body.name
    why = 'the value is accumulated inside `%s` over a closure chain that the normal form does not open' % consumer[1]
    for fam, names in PRECISE.items():
        for n in names: ctx.undecided('%s.%s/%s/%s' % (R, fam, short, n), 'T-LOOPMUST' if fam == 'every-term' else 'T-CARRY', body.site(consumer[4]), why)
    def weak(fam, name, cond, detail, template='T-CARRY'):
        ctx.check(bool(cond), '%s.%s/%s/%s~weak' % (R, fam, short, name), template, fn, detail, body.site(consumer[4]))
    sv = K.S.slice_operand(body, vop); ss = K.S.slice_operand(body, sop)
    init_field = {'constant': ('v1::Linear', 'constant'), 'linear-part': ('v1::Quadratic', 'linear')}.get(spec['init'])
    # ---- value
    weak('fields', 'sum-is-added', sv.has_field(*spec['coef'][-1]), 'the value does not depend on the coefficients')
    weak('fields', 'init', init_field is None or sv.has_field(*init_field), 'the value does not depend on %s' % (init_field,))
    weak('fields', 'term-is-coefficient-times-values', sv.has_call(STATE_GET) and 2 in sv.params, 'the value does not depend on lookups in the given state')
    weak('fields', 'lookup-keys', all(sv.has_field(*p[-1]) for p in spec['ids']), 'the value does not depend on every id field')
    weak('fields', 'one-factor-per-id', not [c for c in sv.calls if DERIVING.search(T.strip_generics_tail(c))], 'the value goes through a filtered / re-ordered / de-duplicated collection: %s' % sorted(c.split('::')[-1] for c in sv.calls if DERIVING.search(T.strip_generics_tail(c)))[:4], 'T-LOOPMUST')
    # ---- the chain under the consumer
    n = consumer[3][0]; restricted = []
    while n[0] == 'call' and n[3]:
        nm = T.strip_generics_tail(n[2])
        if 'Iterator' in n[2] and n[1] in PASS_ADAPTORS and n[1] != 'zip': n = n[3][0]; continue
        if ITERISH.search(nm) and n[1] != 'zip' and not nm.endswith('multizip'): n = n[3][0]; continue
        if 'Iterator' in n[2] and n[1] not in ('zip',): restricted.append(n[1])
        break
    comp = components(n)
    leaves = list(comp_leaves(comp))
    def leaf_from_msg(l):
        if l[0] == 'index': return True
        mp = K.msg_path(l[1]) if l[0] == 'src' else None
        return mp is not None and any(same_path(mp[0][:1], p[:1]) for p in [spec['coef']] + spec['ids'])
    from_msg = all(leaf_from_msg(l) for l in leaves)
    weak('every-term', 'loop', from_msg, 'the consumer does not run over the message\'s own term list (%s)' % [T.expr_str(l[1]) if len(l) > 1 else l[0] for l in leaves], 'T-LOOPMUST')
    weak('every-term', 'dominates', all(body.dominates(consumer[4], e) for e in body.strict_ok_exits()), 'the consumer does not dominate the Ok-exit', 'T-MUSTCALL')
    weak('every-term', 'all-terms', not restricted, 'the term iterator is restricted by %s' % restricted, 'T-LOOPMUST')
    weak('every-term', 'accumulated', consumer[1] in FULL_CONSUMERS, '`%s` does not visit every term' % consumer[1], 'T-LOOPMUST')
    weak('every-term', 'iterates-message-directly', all(l[0] in ('src', 'index') for l in leaves), 'the consumer runs over a derived collection', 'T-LOOPMUST')
    # ---- the Result of the consumer (errors of the closure) is propagated
    cc = [c for c in body.calls if c.bb == consumer[4]]
    fallible = bool(cc) and 'Result' in body.locals[cc[0].dst['l']]
    bad = errflow_bad(body, cc) if fallible else []
    weak('lookup', 'visible', not hidden or (fallible and not bad), 'errors of the closure (missing variables) are not propagated: %s' % ([w for c, w in bad] or 'the consumer does not return a Result'), 'T-ERRFLOW')
    # ---- used ids
    weak('used', 'ids', all(ss.has_field(*p[-1]) for p in spec['ids']), 'the returned set does not depend on every id field')
    weak('used', 'into-result-set', ss.has_call(r'BTreeSet(::)?<.*>(::| as .*>::)(insert|extend)'), 'nothing is inserted into the returned set')
    weak('used', 'every-id', not [c for c in ss.calls if DERIVING.search(T.strip_generics_tail(c))], 'the ids go through a filtered / re-ordered / de-duplicated collection', 'T-LOOPMUST')
    if spec['init'] == 'linear-part':
        tests = option_field_tests(body, 'v1::Quadratic', 'linear'); oks = body.strict_ok_exits()
        none_only = set().union(*[body.reach([nn]) - body.reach([sm]) for sb, sm, nn in tests]) if tests else set()
        zero = [bi for bi, st in body.stmts() if bi in none_only and any(o['k'] == 'const' and o['v'] == '0f64' for o in st['rv'].get('ops', []))]
        ctx.check(bool(zero), R + '.linear-none/zero', 'T-CONST', fn, 'absent linear part does not contribute (0, {})', body.site())
        ctx.check(any(reach_v(body, [nn]) & oks for sb, sm, nn in tests) and not (none_only & body.err_exits()), R + '.linear-none/ok', 'T-GUARD', fn, 'absent linear part leads to an error', body.site())
        le = [c for c in body.calls if c.item == 'evaluate' and 'v1::Linear as evaluate::Evaluate' in c.name]
        decide(ctx, R + '.fields/%s/linear-error' % short, 'T-ERRFLOW', body, [('linear part evaluation: ' + w, body.site(c.bb)) for c, w in errflow_bad(body, le)] + ([] if le else [('the linear part is not evaluated', None)]))
        ctx.check(ss.has_call(r'v1::Linear as evaluate::Evaluate>::evaluate'), R + '.used/Quadratic/includes-linear-ids', 'T-CARRY', fn, 'ids of the linear part are not reported', body.site())


def start_value(l, alts):
    """the value an accumulator has before its loop: its only definition outside the updates, or the phi of several"""
    if len(alts) == 1: return alts[0][0]
    return ('phi', l, [x for x, b in alts], [b for x, b in alts])


def empty_guards(body):
    """tests "this list is empty": (the is_empty()/len() call, switch block, the target taken when the list IS empty).
    `list.is_empty()` (true side) ≡ `list.len() == 0` (true side) ≡ `list.len() != 0` / `list.len() > 0` (false side)"""
    out = []
    for c in body.calls:
        if c.item == 'is_empty' and len(c.args) == 1 and re.search(r'(Vec::<.*>|\[.*\]>?)::is_empty$', T.strip_generics_tail(c.name)):
            for g in T.guards_from_call(body, c):
                if g.true_bb is not None: out.append((c, g.switch_bb, g.true_bb))
        if c.item == 'len' and len(c.args) == 1 and re.search(r'(Vec::<.*>|\[.*\]>?)::len$', T.strip_generics_tail(c.name)) and not c.dst['p']:
            for kind, bi, st in body.uses.get(c.dst['l'], ()):
                if kind != 'stmt' or st['rv']['k'] != 'bin' or st['rv']['op'] not in ('Eq', 'Ne', 'Gt') or st['dst']['p']: continue
                o1 = st['rv']['ops'][1]
                if o1['k'] != 'const' or not o1['v'].startswith('0_usize'): continue
                for g in T.guards_from_local(body, st['dst']['l'], bi):
                    tgt = g.true_bb if st['rv']['op'] == 'Eq' else g.false_bb
                    if tgt is not None: out.append((c, g.switch_bb, tgt))
    return out


def shortcut_problems(K, pair, guards, term_loop, rec, main_sop):
    """why the early exit `pair` (taken when a list is empty) does NOT return what the main exit returns after zero iterations"""
    body = K.body; vx = K.vx; e, vop, sop = pair; why = []
    lists = K.loop_lists(term_loop)
    if not any(K.msg_path(vx.op(c.args[0])) is not None and any(K.msg_path(vx.op(c.args[0]))[0] == l for l in lists) for c in guards):
        why.append('an early Ok-exit is not guarded by is_empty() of a list the term loop runs over')
    acc_l, inits, ups = rec
    if any(e in body.reach([bi]) for op, x, bi in ups): why.append('an early Ok-exit can be reached after terms have been added')
    def summands(nodes):
        out = []
        for x in nodes:
            for leaf in T.flatten(x, 'Add'):
                r = recurrence(leaf, vx)
                if r is not None and r[0] == acc_l: out += summands([start_value(acc_l, r[1])])       # the accumulator before the loop = its start value
                elif peel(leaf) != ('const', '0f64'): out.append(repr(peel(leaf)))
        return sorted(out)
    if summands([K.inline_vecs(vx.op(vop))]) != summands([x for x, bi in inits]):
        why.append('an early Ok-exit does not return the start value of the sum')
    root = lambda o: T.access_path(body, o, transparent=T.TRANSPARENT_NOCLONE)[1]
    def fresh(l):
        ds = body.defs_of(l) if l is not None else []
        return len(ds) == 1 and ds[0][0] == 'call' and bool(re.search(r'BTreeSet::<.*>::new$', T.strip_generics_tail(ds[0][2]['r'] or ds[0][2]['f'])))
    if not (root(sop) == root(main_sop) or (fresh(root(sop)) and fresh(root(main_sop)))):
        why.append('an early Ok-exit does not return the start value of the id set')
    return why


def def_in_force(body, b, t, others, H):
    """the definition in block b is the value at block H when control passes the edge target t (no other definition - blocks `others` - in between)"""
    if b in reach_v(body, [t], stop={H}): return H in reach_v(body, [b], stop=others) or b == H
    return t in reach_v(body, [b], stop=others | {H}) and H in reach_v(body, [t], stop=others)


def written_out_part(ctx, K, short, spec, inits, Lp, P, ups_part, sop):
    """The optional part of a kernel (Quadratic.linear) evaluated in place: `if let Some(part) = &self.part { sum = part.constant; for t in &part.terms { .. } }`
    ≡ `part.evaluate(state)?`.  The part's loop P is checked against the part's own kernel (its paths below spec['part']['prefix']), scoped to the
    Some side of the test on the part; the start value is decided on reaching definitions: 0.0 in force on the None side, the part's start value at P on the
    Some side.  Emits the start-value instances of the kernel; returns the part's term / every-term / used-id findings to be merged with the main loop's."""
    R = 'C01'; body = K.body; fn = body.name
    part = spec['part']; sub = KERNELS[part['kernel']]; pre = part['prefix']
    pspec = dict(coef=pre + sub['coef'], ids=[pre + p for p in sub['ids']], init=sub['init'])
    tests = option_field_tests(body, *part['test'])
    H = Lp[1]; PH = P[1]
    side = [(sb, sm, nn) for sb, sm, nn in tests if PH in reach_v(body, [sm], stop={H}) and PH not in reach_v(body, [nn], stop={H})]
    sm, nn = (side[0][1], side[0][2]) if side else (None, None)
    saved = (K.spec, K.scope); K.spec = pspec; K.scope = (sm, {H}) if side else None
    try:
        every = K.every_iteration([P[0].bb], [bi for op, x, bi in ups_part]) if side else ['a path through the loop body skips it: the loop of the written-out part is not on the Some side of a test on the part']
        terms = term_analysis(K, pspec, ups_part, P[0].bb)
        used = used_analysis(K, pspec, sop)[:4]
    finally:
        K.spec, K.scope = saved
    # start value
    nz = [(peel(x), bi) for x, bi in inits if peel(x) != ('const', '0f64')]
    entries = [e for x, bi in (nz if nz else inits) for e in flat_alts(x, bi)] if len(nz) <= 1 else []
    descr = [T.expr_str(peel(x)) for x, bi in inits]
    want_start = pre + [(sub['ty'], 'constant')] if sub['init'] == 'constant' else None
    zero_ok = start_ok = False; rest = []
    for x, bi in entries:
        n = peel(x); others = {b for y, b in entries if b != bi}
        if n == ('const', '0f64'):
            if side and def_in_force(body, bi, nn, others, H) and not def_in_force(body, bi, sm, others, H) and (want_start is not None or def_in_force(body, bi, sm, others, PH)): zero_ok = True; continue
            if side and want_start is None and def_in_force(body, bi, sm, others, PH): start_ok = True; continue
        mp = K.msg_path(n)
        if side and want_start is not None and mp is not None and same_path(mp[0], want_start) and not mp[1] \
                and def_in_force(body, bi, sm, others, PH) and not def_in_force(body, bi, nn, others, H) and must_pass_v(body, sm, {PH}, {bi}): start_ok = True; continue
        rest.append(x)
    ctx.check(zero_ok, R + '.linear-none/zero', 'T-CONST', fn, 'absent linear part does not contribute (0, {})', body.site())
    ctx.check(bool(side) and bool(reach_v(body, [nn]) & body.strict_ok_exits()), R + '.linear-none/ok', 'T-GUARD', fn, 'absent linear part leads to an error', body.site())
    inside = [c for c in state_lookups(ctx, body) if c.bb in P[4]]
    decide(ctx, R + '.fields/%s/linear-error' % short, 'T-ERRFLOW', body, [('linear part evaluation: ' + why, body.site(c.bb)) for c, why in errflow_bad(body, inside)] + ([] if inside else [('the written-out linear part looks up nothing', None)]))
    outside = all(b not in Lp[4] and b not in P[4] for x, b in entries)
    ctx.check(zero_ok and start_ok and not rest and outside, R + '.fields/%s/init' % short, 'T-CARRY', fn, 'accumulator does not start from %s (found %s)' % (spec['init'], descr), body.site())
    return dict(every=every, terms=terms, used=used)


def init_check(ctx, K, short, kind, inits, Lp):
    """inits: the summands the sum starts from (definitions of the accumulator outside the loop + summands added at the exit)"""
    R = 'C01'; body = K.body; fn = body.name
    descr = [T.expr_str(peel(x)) for x, bi in inits]
    outside = all(b not in Lp[4] for x, bi in inits for n, b in flat_alts(x, bi))
    nz = [(peel(x), bi) for x, bi in inits if peel(x) != ('const', '0f64')]          # 0.0 + x ≡ x
    init_ok = False
    if kind == 'constant':
        init_ok = len(nz) == 1 and K.msg_path(nz[0][0]) == ([('v1::Linear', 'constant')], [])
    elif kind == 'zero':
        init_ok = not nz and bool(inits)
    elif kind == 'linear-part':
        # (sum, ids) = match &self.linear { Some(l) => l.evaluate(state)?, None => (0.0, {}) }   (if let / match / as_ref() alike)
        # ... or a default `(0.0, {})` overwritten inside `if let Some(l) = ..`: decided on reaching definitions - which definition of the start
        # value is the one in force at the loop when control comes through the None / the Some side of the test on self.linear
        entries = list(flat_alts(nz[0][0], nz[0][1])) if len(nz) == 1 else []
        tests = option_field_tests(body, 'v1::Quadratic', 'linear')
        H = Lp[1]
        def in_force(b, t, others): return def_in_force(body, b, t, others, H)
        some_ok = none_ok = False; rest = []
        for x, bi in entries:
            n = peel(x); others = {b for y, b in entries if b != bi}
            if n == ('const', '0f64'):
                if any(in_force(bi, nn, others) and not in_force(bi, sm, others) for sb, sm, nn in tests):
                    none_ok = True
                    # an absent linear part is not an error
                    ctx.check(any(bool(reach_v(body, [nn]) & body.strict_ok_exits()) for sb, sm, nn in tests), R + '.linear-none/ok', 'T-GUARD', fn, 'absent linear part leads to an error', body.site(bi))
                    continue
            if n[0] == 'proj' and n[1][0] == 'call' and n[1][1] == 'evaluate' and 'v1::Linear as evaluate::Evaluate' in n[1][2] and len(entries) == 1 \
                    and [f for a, f in n[2] if a == 'tuple'] == ['0'] and peel(n[1][3][1]) == ('place', 2, []):
                # "absent part ≡ the part's default": one unconditional `part.evaluate(state)?` whose receiver is the payload on the Some side and a fresh
                # `Linear::default()` on the None side (`self.linear.as_ref().unwrap_or(&Linear::default())`).  The default message has constant 0.0 and no
                # terms (derived Default), so by the Linear kernel's own rules it evaluates to (0.0, {}).
                ev = n[1]; ralts = list(recv_alts(ev[3][0], ev[4])); HE = ev[4]
                pay = [(x, b) for x, b in ralts if self_fields(x) is not None and same_path([f for f in self_fields(x) if not f[0].endswith('Option::Some')], [('v1::Quadratic', 'linear')])]
                dfl = [(x, b) for x, b in ralts if x[0] == 'call' and x[1] == 'default' and re.match(r'^<v1::Linear as std::default::Default>::default$', T.strip_generics_tail(x[2]))]
                if len(ralts) == 2 and len(pay) == 1 and len(dfl) == 1 and HE not in Lp[4]:
                    bp, bd = pay[0][1], dfl[0][1]
                    for sb, sm, nn in tests:
                        if def_in_force(body, bp, sm, {bd}, HE) and not def_in_force(body, bp, nn, {bd}, HE) and def_in_force(body, bd, nn, {bp}, HE) and not def_in_force(body, bd, sm, {bp}, HE):
                            some_ok = none_ok = True
                            ctx.check(bool(reach_v(body, [nn]) & body.strict_ok_exits()), R + '.linear-none/ok', 'T-GUARD', fn, 'absent linear part leads to an error', body.site(bd))
                            break
                    if some_ok: continue
            if n[0] == 'proj' and n[1][0] == 'call' and n[1][1] == 'evaluate' and 'v1::Linear as evaluate::Evaluate' in n[1][2]:
                ev = n[1]
                if [f for a, f in n[2] if a == 'tuple'] == ['0'] and ('v1::Quadratic', 'linear') in T.expr_fields(ev[3][0]) and peel(ev[3][1]) == ('place', 2, []) \
                        and any(ev[4] in reach_v(body, [sm], stop={H}) and ev[4] not in reach_v(body, [nn], stop={H}) and in_force(bi, sm, others) and not in_force(bi, nn, others) for sb, sm, nn in tests):
                    some_ok = True; continue
            rest.append(x)
        init_ok = some_ok and none_ok and not rest
        ctx.check(none_ok, R + '.linear-none/zero', 'T-CONST', fn, 'absent linear part does not contribute (0, {})', body.site())
        le = [c for c in body.calls if c.item == 'evaluate' and 'v1::Linear as evaluate::Evaluate' in c.name]
        decide(ctx, R + '.fields/%s/linear-error' % short, 'T-ERRFLOW', body, [('linear part evaluation: ' + why, body.site(c.bb)) for c, why in errflow_bad(body, le)])
    ctx.check(init_ok and outside, R + '.fields/%s/init' % short, 'T-CARRY', fn, 'accumulator does not start from %s (found %s)' % (kind, descr), body.site())


# ways of recording ids in the result set
#   set.insert(id)                       inside the loop that yields the id, on every path
#   set.extend(<ITERISH view of ids>)    ≡ for id in ids { set.insert(*id) }       (extend([a, b]) is two inserts in the normal form)
SET_INSERT = re.compile(r'BTreeSet::<.*>::insert$')
SET_EXTEND = re.compile(r'BTreeSet<.*> as std::iter::Extend<.*>>::extend$|BTreeSet::<.*>::extend$')


def used_analysis(K, spec, sop):
    """(id fields recorded in the returned set, wanted id fields, stray-insert problems, every-id problems)"""
    body = K.body; vx = K.vx
    set_l = T.access_path(body, sop, transparent=T.TRANSPARENT_NOCLONE)[1]
    # the result set may be made at the end from a container the ids were gathered in: `ids_vec.into_iter().collect()` / BTreeSet::from_iter(view of C)
    # -> what is recorded into C (push / insert / extend / extend_from_slice) is recorded into the set.  The conversion must lie outside the loops.
    roots = {set_l}
    for _ in range(3):
        for r in list(roots):
            if r is None: continue
            ds = body.defs_of(r)
            if len(ds) == 1 and ds[0][0] == 'call' and re.search(r'::(collect|from_iter)$', T.strip_generics_tail(ds[0][2]['r'] or ds[0][2]['f'])) and ds[0][2]['args'] and not K.nest(ds[0][1]):
                src = vx.op(ds[0][2]['args'][0])
                while src[0] == 'call' and ITERISH.search(T.strip_generics_tail(src[2])) and src[3]: src = src[3][0]
                if src[0] == 'local' and src[1] >= 0: roots.add(src[1])
    def into_set(c):
        return T.access_path(body, c.args[0], transparent=T.TRANSPARENT_NOCLONE)[1] in roots
    sites = []          # (call, path fields, loops chain)
    stray = []
    for c in body.calls:
        nm = T.strip_generics_tail(c.name)
        if c.item in ('extend_from_slice', 'extend') and re.search(r'Vec::<.*>::extend_from_slice$|Vec<.*> as std::iter::Extend<.*>>::extend$', nm) and len(c.args) == 2 and into_set(c) and len(roots) > 1:
            comp = components(vx.op(c.args[1]))            # C.extend_from_slice(&list) ≡ for x in list { C.push(x) }
            mp = K.msg_path(comp[1]) if comp[0] == 'src' else None
            if mp is not None and any(same_path(mp[0], p) for p in spec['ids']): sites.append((c, mp[0], mp[1]))
        elif c.item == 'push' and re.search(r'Vec::<.*>::push$', nm) and len(c.args) == 2 and into_set(c) and len(roots) > 1:
            for mp in K.msg_paths(vx.op(c.args[1])):
                if any(same_path(mp[0], p) for p in spec['ids']): sites.append((c, mp[0], mp[1]))
        elif c.item == 'insert' and SET_INSERT.search(nm) and len(c.args) == 2:
            for mp in K.msg_paths(vx.op(c.args[1])):           # an insert in `for id in [a, b]` records a and b
                if not any(same_path(mp[0], p) for p in spec['ids']): continue
                (sites if into_set(c) else stray).append((c, mp[0], mp[1]))
        elif c.item == 'extend' and SET_EXTEND.search(nm) and len(c.args) == 2:
            comp = components(vx.op(c.args[1]))
            mp = K.msg_path(comp[1]) if comp[0] == 'src' else None
            if mp is None or not any(same_path(mp[0], p) for p in spec['ids']): continue
            (sites if into_set(c) else stray).append((c, mp[0], mp[1]))
    probs = []
    for p in spec['ids']:
        cands = [s for s in sites if same_path(s[1], p)]
        why = None
        for c, fs, chain in cands:
            w = K.every_iteration(chain, [c.bb])
            # the loops crossed must run over the message's own lists
            for nb in chain: w += K.loop_problems(nb)
            if not w: why = None; break
            why = w
        if why: probs.append(('an id of %s can be skipped: %s' % (p[-1][1], '; '.join(why)), body.site(cands[0][0].bb)))
    want = sorted(p[-1][1] for p in spec['ids'])
    seen = sorted({s[1][-1][1] for s in sites})
    strays = [('id is inserted into another set', body.site(c.bb)) for c, fs, ch in stray if not any(same_path(s[1], fs) for s in sites)]
    # the set (and a container it is made from) only grows: no other mutation through a `&mut` of it
    for r, x in vx.alias.items():
        if x not in roots: continue
        for kind, bi, u in body.uses.get(r, ()):
            if kind == 'call' and u.arg_local(0) == r and u.item not in ('insert', 'extend', 'push', 'extend_from_slice', 'reserve', 'append'):
                strays.append(('the recorded ids are changed by `%s`' % u.item, body.site(u.bb)))
    return seen, want, strays, probs, set_l


def used_rules(ctx, K, short, spec, sop, part=None):
    """part: used_analysis of a written-out part (its ids must be recorded too)"""
    R = 'C01'; body = K.body; fn = body.name
    seen, want, strays, probs, set_l = used_analysis(K, spec, sop)
    ctx.check(seen == want and (part is None or part[0] == part[1]), R + '.used/%s/ids' % short, 'T-CARRY', fn,
              'ids recorded in the result set are %s, expected %s' % (seen + (part[0] if part else []), want + (part[1] if part else [])), body.site())
    decide(ctx, R + '.used/%s/into-result-set' % short, 'T-CARRY', body, strays + (part[2] if part else []))
    decide(ctx, R + '.used/%s/every-id' % short, 'T-LOOPMUST', body, probs + (part[3] if part else []))
    if spec['init'] == 'linear-part':
        if part is not None:
            ctx.check(part[0] == part[1] and not part[3], R + '.used/Quadratic/includes-linear-ids', 'T-CARRY', fn, 'ids of the linear part are not reported', body.site())
        else:
            s = K.S.backslice(body, [set_l])
            ctx.check(s.has_call(r'v1::Linear as evaluate::Evaluate>::evaluate'), R + '.used/Quadratic/includes-linear-ids', 'T-CARRY', fn, 'ids of the linear part are not reported', body.site())


# ------------------------------------------------------------------------------------------------
# the oneof dispatcher
# ------------------------------------------------------------------------------------------------
def oneof_rules(ctx):
    R = 'C01.oneof'
    body = ctx.method(R + '/anchor', 'v1::Function', 'evaluate', trait='Evaluate')
    if body is None: return
    # existing inherent helpers (get_constant, ..) are opened here as well: what they contribute is judged where it is used, with the variant the
    # surrounding arm has already established (reach_v knows the discriminants of places behind `&self` that were tested on the path)
    body = opened(ctx, body, helpers=True)
    en = ctx.F.adt('v1::function::Function')
    if en is None:
        ctx.lost(R, 'enum v1::function::Function'); return
    vx = VX(body)
    variants = [v['name'] for v in en['variants']]
    want = {'Constant': None, 'Linear': 'v1::Linear', 'Quadratic': 'v1::Quadratic', 'Polynomial': 'v1::Polynomial'}
    ctx.check(set(variants) == set(want), R + '/variant-list', 'T-TABLE', body.name, 'oneof variants are %s, rule table knows %s' % (variants, sorted(want)), body.site())
    # outer Option test (match / if let / let-else, on &self.function or self.function.as_ref()) and inner enum switch
    tests = option_field_tests(body, 'v1::Function', 'function')
    ctx.check(len(tests) >= 1, R + '/option-test', 'T-BRANCHFX', body.name, 'no test on self.function', body.site())
    if not tests: return
    sb, some_t, none_t = tests[0]
    # path-sensitive sides: blocks reachable when self.function is None, and not when it is Some (the same place tested again later agrees)
    fkey = None
    tsw = body.blocks[sb]['term']
    for k2, b2, d in body.defs_of(tsw['d']['pl']['l']):
        if k2 == 'stmt' and d['rv']['k'] == 'discr' and place_key(body, d['rv']['pl']) is not None: fkey = ('P',) + place_key(body, d['rv']['pl'])
    feasible = reach_v(body, [0])
    if fkey is not None: nr = (reach_v(body, [none_t], env0={fkey: 0}) - reach_v(body, [some_t], env0={fkey: 1})) & feasible
    else: nr = T.reach_cp(body, [none_t]) - T.reach_cp(body, [some_t])
    def flat_alts(n, bb):            # alternatives that are defined on no feasible path are not alternatives
        return [(x, b) for x, b in all_alts(n, bb) if b in feasible]
    # unset oneof => (0.0, empty set), no error
    # on dataflow: among the pairs an Ok-exit may return there is one whose value is the constant 0.0 *as defined on the None side only*
    # and whose set is a fresh BTreeSet.  Covers a `None => (0.0, {})` arm, `let .. else { return Ok((0.0, {})) }`, and a default
    # substituted for the missing case (`.unwrap_or(&Constant(0.0))`, `.map_or(Ok((0.0, {})), ..)`) that then takes the Constant arm.
    # what the function returns: payloads of `Ok(x)` (x through copies / `?` / phi of the arms), whether the Ok is built at the exit or
    # earlier (`map_or(Ok(..), ..)`), or a callee's Result returned as it is
    payloads = []; direct = set()
    for e, k, st in body.ret_assignments():
        if k == 'callval': direct.add(e); continue
        if k not in ('ok', 'val') or st['rv']['k'] not in ('agg', 'use') or st['rv']['ops'][0]['k'] not in ('copy', 'move'): continue
        if k == 'ok': payloads += list(flat_alts(vx.op(st['rv']['ops'][0]), e)); continue
        for n, bb in flat_alts(vx.op(st['rv']['ops'][0]), e):
            if n[0] == 'agg' and n[1].endswith('Result::Ok') and len(n[2]) == 1: payloads += list(flat_alts(n[2][0], bb))
            elif n[0] == 'call': direct.add(n[4])
    okn = False
    for n, bb in payloads:
        if n[0] == 'agg' and n[1] == 'tuple' and len(n[2]) == 2:
            zero = any(x == ('const', '0f64') and b2 in nr for x, b2 in flat_alts(n[2][0], bb))
            fresh = any(x[0] == 'call' and x[1] == 'new' and 'BTreeSet' in x[2] for x, b2 in flat_alts(n[2][1], bb))
            if zero and fresh: okn = True
    ctx.check(okn and not (nr & body.err_exits()) and bool(T.reach_cp(body, [none_t]) & body.strict_ok_exits()), R + '/unset-is-zero', 'T-BRANCHFX', body.name,
              'an unset oneof does not evaluate to (0.0, {})', body.site())
    # one arm per variant: the switch on the discriminant of the oneof payload
    sw = None
    for bi in sorted(T.reach_cp(body, [some_t]) | {sb}):
        t = body.blocks[bi]['term']
        if t['k'] == 'switch' and t['d']['k'] != 'const':
            for k2, b2, d in body.defs_of(t['d']['pl']['l']):
                if k2 != 'stmt' or d['rv']['k'] != 'discr': continue
                pl = d['rv']['pl']; fsp = fields_of_place(pl)
                lty = body.locals[pl['l']].replace('&', '').replace("'_ ", '').strip()
                on_enum = any('function::Function' in a for a, f in fsp) or (not fsp and lty.endswith('v1::function::Function')) or any(isinstance(p, dict) and p.get('dc') == 'Some' for p in pl['p'])
                if on_enum and (bi != sb or len(t['ts']) > 1) and (sw is None or body.dominates(bi, sw[0])): sw = (bi, t)        # the outermost one (opened helpers test the oneof again)
    if sw is None:
        # the Option and the enum may be tested by one switch chain; look for any switch with >= 3 targets
        for bi in sorted(body.live):
            t = body.blocks[bi]['term']
            if t['k'] == 'switch' and len(t['ts']) >= 3: sw = (bi, t)
    ctx.check(sw is not None, R + '/enum-switch', 'T-BRANCHFX', body.name, 'no switch over the oneof variants', body.site())
    if sw is None: return
    bi, t = sw; m = {v: tg for v, tg in t['ts']}
    targets = {v['name']: m.get(v['discr'], t['else']) for v in en['variants']}
    returned = [n for n, bb in payloads]
    # the payload evaluations, by dataflow: which Evaluate::evaluate call receives the payload of which variant.  The call may be
    # written once per arm (static dispatch) or once for several arms through a `&dyn Evaluate` / generic selected in the arms;
    # the impl that runs is fixed by the type of the payload, which the enum definition fixes.
    E = [c for c in body.calls if c.item == 'evaluate' and (c.trait or '').endswith('Evaluate') and len(c.args) == 2]
    recv = {}
    for c in E:
        recv[c.bb] = [(variant_payload(a), abb) for a, abb in recv_alts(vx.op(c.args[0]), c.bb)]
    regs = {}
    pkey = None
    for k2, b2, d in body.defs_of(t['d']['pl']['l']):
        if k2 == 'stmt' and d['rv']['k'] == 'discr' and place_key(body, d['rv']['pl']) is not None: pkey = ('P',) + place_key(body, d['rv']['pl'])
    def arm_env(name):
        v = [x for x in en['variants'] if x['name'] == name][0]
        e0 = {pkey: v['discr']}
        if fkey is not None: e0[fkey] = 1
        return e0
    for name, tg in targets.items():
        others = [(n2, x) for n2, x in targets.items() if n2 != name]
        if pkey is not None:
            regs[name] = (reach_v(body, [tg], env0=arm_env(name)) - set().union(*[reach_v(body, [x], env0=arm_env(n2)) for n2, x in others])) & feasible
        else:
            regs[name] = T.reach_cp(body, [tg]) - set().union(*[T.reach_cp(body, [x]) for n2, x in others if x != tg]) if others else T.reach_cp(body, [tg])
    arm_calls = {}
    for name, tg in targets.items():
        reg = regs[name]
        mine = [c for c in E if any(v == name and (abb in reg or c.bb in reg) for v, abb in recv[c.bb])]
        stray = [c for c in E if c.bb in reg and c not in mine]
        if want.get(name) is None:
            # constant: value is the payload itself
            okc = False
            for b2, st in body.stmts():
                if b2 in reg and st['rv']['k'] == 'agg' and st['rv']['adt'] == 'tuple' and len(st['rv']['ops']) == 2:
                    ex = T.expr(body, st['rv']['ops'][0])
                    if any(f == '0' and 'Constant' in a for a, f in T.expr_fields(ex)): okc = True
            # .. or by dataflow: a returned pair whose value has the Constant payload as the alternative defined in this arm (e.g. through an opened helper)
            for n, bb in payloads:
                if n[0] == 'agg' and n[1] == 'tuple' and len(n[2]) == 2 and any(variant_payload(x) == 'Constant' and (b2 in reg or bb in reg) for x, b2 in flat_alts(n[2][0], bb)): okc = True
            ctx.check(okc and not mine and not stray, R + '/arm/' + name, 'T-BRANCHFX', body.name, 'Constant arm does not return its payload', body.site(tg))
        else:
            c = mine[0] if len(mine) == 1 else None
            named = re.match(r'^<(v1::\w+) as ', c.name) if c else None          # a concrete impl named by the call must be the payload's
            ok = c is not None and not stray and T.access_path(body, c.args[1])[1] == 2 and (named is None or named.group(1) == want[name]) \
                 and all(v is not None and want.get(v) is not None for v, abb in recv[c.bb])
            ctx.check(bool(ok), R + '/arm/' + name, 'T-BRANCHFX', body.name, '%s arm does not evaluate its %s payload at the given state' % (name, name), body.site(tg))
            decide(ctx, R + '/arm/%s/error' % name, 'T-ERRFLOW', body, [('payload evaluation: ' + why, body.site(x.bb)) for x, why in errflow_bad(body, mine + stray)])
            # the value of the chosen arm is returned unchanged:  Ok(e?) ≡ e
            unchanged = c is not None and (c.bb in direct or any(x[0] == 'call' and x[1] == 'evaluate' and x[4] == c.bb for x in returned)
                                           or any(rebuilt_pair(x, c.bb) for x in returned))
            ctx.check(unchanged, R + '/returns-arm-result/' + name, 'T-CARRY', body.name, 'the result of evaluating the %s payload is not what the function returns' % name, body.site(tg))
            if c is not None: arm_calls[c.bb] = c
    # nothing else is returned: every Ok-exit hands out an arm's evaluation, the Constant payload, or the zero of the unset oneof
    foreign = []
    for bb in sorted(direct):
        if bb not in arm_calls: foreign.append(('the result of another call is returned', body.site(bb)))
    for n, bb in payloads:
        if n[0] == 'call' and n[1] == 'evaluate' and len(n) > 4 and n[4] in arm_calls: continue
        if any(rebuilt_pair(n, cb) for cb in arm_calls): continue
        if n[0] == 'agg' and n[1] == 'tuple' and len(n[2]) == 2:
            va = [(x, b2) for x, b2 in flat_alts(n[2][0], bb)]
            vb = [x for x, b2 in flat_alts(n[2][1], bb)]
            if all((x == ('const', '0f64') and b2 in nr) or variant_payload(x) == 'Constant' for x, b2 in va) and all(x[0] == 'call' and x[1] == 'new' and 'BTreeSet' in x[2] for x in vb): continue
        foreign.append(('an Ok-exit returns something else than an arm\'s result: %s' % T.expr_str(n), body.site(bb)))
    decide(ctx, R + '/only-arm-results', 'T-BRANCHFX', body, foreign)
    # ... and it fails only when the evaluation of a payload failed
    decide(ctx, R + '/only-payload-errors', 'T-ERRFLOW', body,
           [('the dispatcher can fail although no payload evaluation failed', body.site(e)) for e in other_failures(body, E)])
    arith_ops = [b2 for b2, st2 in body.stmts() if st2['rv']['k'] in ('bin', 'un') and st2['rv'].get('ty') == 'f64' and b2 in feasible]
    arith_ops += [c.bb for c in body.calls if (T.ARITH_CALL.match(c.name) or T.ASSIGN_CALL.match(c.name)) and c.bb in feasible]
    ctx.check(not arith_ops, R + '/no-arithmetic', 'T-BRANCHFX', body.name, 'the dispatcher modifies the value', body.site(arith_ops[0]) if arith_ops else body.site())


def recv_alts(n, bb):
    """alternatives of a receiver: phi flattened, unsizing casts (`&T as &dyn Trait`) and reborrows looked through"""
    n = peel(n)
    if n[0] == 'cast' and 'dyn ' in n[1]: yield from recv_alts(n[2], bb)
    elif n[0] == 'phi':
        for x, b in zip(n[2], n[3]): yield from recv_alts(x, b)
    else: yield n, bb


def self_fields(n):
    """field path from `self` of a value read through transparent calls (as_ref, deref, ..): [(adt, field)..] or None"""
    fs = []
    for _ in range(8):
        n = peel(n)
        if n[0] == 'place': return (list(n[2]) + fs) if n[1] == 1 else None
        if n[0] == 'proj' and not is_item(n): fs = list(n[2]) + fs; n = n[1]; continue
        return None
    return None


def variant_payload(n):
    """name of the oneof variant whose payload `self.function as Some.0 as V.0` the value is; None otherwise"""
    fs = self_fields(n)
    if not fs or len(fs) < 2 or fs[0] != ('v1::Function', 'function'): return None
    a, f = fs[-1]
    m = re.search(r'function::Function::(\w+)$', a)
    if m and f == '0' and all(x[0].endswith('Option::Some') or x is fs[-1] for x in fs[1:]): return m.group(1)
    return None


def all_alts(n, bb):
    return flat_alts(n, bb)


def flat_alts(n, bb):
    """alternatives of a value (phi flattened) with the block that defines each"""
    n = peel(n)
    if n[0] == 'phi':
        for x, b in zip(n[2], n[3]): yield from flat_alts(x, b)
    else: yield n, bb


def rebuilt_pair(x, bb):
    """`let (v, ids) = e?; (v, ids)` ≡ `e?`: a tuple whose k-th component is (one definition of which is) the k-th component of the call result at block bb"""
    if x[0] != 'agg' or x[1] != 'tuple' or len(x[2]) != 2: return False
    for k, comp in enumerate(x[2]):
        comp = peel(comp)
        alts = [peel(y) for y in comp[2]] if comp[0] == 'phi' else [comp]
        if not any(y[0] == 'proj' and y[1][0] == 'call' and y[1][1] == 'evaluate' and y[1][4] == bb and [f for a, f in y[2] if a == 'tuple'] == [str(k)] for y in alts): return False
    return True


def check(ctx):
    for short in ('Linear', 'Quadratic', 'Polynomial'): kernel_rules(ctx, short)
    oneof_rules(ctx)
    # coverage of the message fields by the evaluators
    for ty, ex in (('v1::Linear', ()), ('v1::Quadratic', ()), ('v1::Polynomial', ())):
        b = ctx.F.one(ty, 'evaluate', trait='Evaluate')
        cover(ctx, 'C01.cover/' + ty.split('::')[-1], b, ty, exempt=ex)
    b = ctx.F.one('v1::Linear', 'evaluate', trait='Evaluate'); cover(ctx, 'C01.cover/Term', b, 'v1::linear::Term')
    b = ctx.F.one('v1::Polynomial', 'evaluate', trait='Evaluate'); cover(ctx, 'C01.cover/Monomial', b, 'v1::Monomial')
    ctx.floor('C01.lookup', 12); ctx.floor('C01.fields', 19); ctx.floor('C01.used', 10); ctx.floor('C01.every-term', 15); ctx.floor('C01.oneof', 17); ctx.floor('C01.linear-none', 2); ctx.floor('C01.cover', 11)


def thorough(ctx):
    """crate-wide sweep: every lookup in a State's entries either errors on a missing id or is one of
    the documented 'is this variable fixed?' probes"""
    seen = {}
    spliced = getattr(ctx.F, 'inlined_closures', set())
    for b in ctx.F.bodies.values():
        if b.kind == 'promoted' or b.name in spliced: continue       # a spliced closure is checked where its body now stands
        lk = state_lookups(ctx, b)
        if not lk: continue
        root = ctx.F.bodies.get(b.parent, b)
        key = (root.hdr.get('self'), root.hdr.get('item'))
        for c in lk:
            res = errflow_v(b, c.dst['l'])
            bad = [h for k, h in res if k == 'bad']
            if not bad:
                ctx.ok('C01.sweep/lookup', 'T-ERRFLOW', b.site(c.bb)); continue
            seen[key] = seen.get(key, 0) + 1
            allow = PROBE_EXEMPT.get(key)
            if allow is not None and seen[key] <= max(allow, 0) and allow > 0:
                ctx.ok('C01.sweep/probe', 'T-ERRFLOW', b.site(c.bb), exempt='documented probe in %s::%s' % key)
            else:
                ctx.bad('C01.sweep/lookup', 'T-ERRFLOW', b.name, 'state lookup whose missing entry is not an error: %s' % '; '.join(sorted(set(bad))), b.site(c.bb))
