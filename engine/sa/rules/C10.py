"""C10 — instantiating parameters equals evaluating them (DESIGN §5 C10)."""
from .common import *

PI = 'v1::ParametricInstance'; INST = 'v1::Instance'
FIELDS = ['description', 'objective', 'constraints', 'decision_variables', 'sense', 'constraint_hints', 'removed_constraints', 'decision_variable_dependency']


# with_parameters is partial evaluation of every function: the kernels' case tables are part of C10
RELIES_ON = {'C03': ['C03.linear', 'C03.quadratic', 'C03.polynomial', 'C03.delegate']}


def check(ctx):
    body = ctx.method('C10.anchor/with_parameters', PI, 'with_parameters')
    if body is not None:
        # ---- guard: required ⊆ given, else error
        def is_subset(c): return c.item == 'is_subset' and 'BTreeSet' in c.name
        def operands_ok(c):
            a = ctx.S.slice_operand(body, c.args[0]); b = ctx.S.slice_operand(body, c.args[1])
            narrowing = sorted({x.item for x in a.call_objs if x.item in RESTRICTING + ('intersection', 'difference', 'symmetric_difference', 'retain', 'remove', 'split_off')})
            return a.has_field(PI, 'parameters') and a.has_field('v1::Parameter', 'id') and b.has_field('v1::Parameters', 'entries') and not b.has_field(PI, 'parameters') \
                and not narrowing and not a.has_field(PI, 'objective') and not a.has_field(PI, 'constraints')
        guard(ctx, 'C10.guard/required-subset-of-given', body, is_subset, True, 'required_ids.is_subset(given_ids)', operand_need=operands_ok)
        # ---- partial evaluation applied to objective and to every constraint, with the given values
        pe_f = [c for c in body.calls if c.item == 'partial_evaluate' and c.is_(trait='Evaluate', self_ty=r'v1::Function$')]
        pe_c = [c for c in body.calls if c.item == 'partial_evaluate' and c.is_(trait='Evaluate', self_ty=r'v1::Constraint$')]
        ctx.check(len(pe_f) == 1, 'C10.apply/objective/call', 'T-MUSTCALL', body.name, 'expected one Function::partial_evaluate call, found %d' % len(pe_f), body.site())
        ctx.check(len(pe_c) == 1, 'C10.apply/constraints/call', 'T-MUSTCALL', body.name, 'expected one Constraint::partial_evaluate call, found %d' % len(pe_c), body.site())
        for c in pe_f:
            r = ctx.S.slice_operand(body, c.args[0]); s = ctx.S.slice_operand(body, c.args[1])
            ctx.check(r.has_field(PI, 'objective'), 'C10.apply/objective/receiver', 'T-CARRY', body.name, 'partial_evaluate receiver is not self.objective', body.site(c.bb))
            ctx.check(2 in s.params and not s.has_field(PI, 'parameters'), 'C10.apply/objective/state', 'T-CARRY', body.name, 'state passed to partial_evaluate does not derive from the given parameters', body.site(c.bb))
            errflow_calls(ctx, 'C10.apply/objective/error', body, [c], 'error of partial_evaluate')
            must_pass_or_none(ctx, 'C10.apply/objective/every-path', body, c, PI, 'objective', 'partially evaluating the objective')
        loops = loops_over(ctx, body, PI, 'constraints')
        for c in pe_c:
            s = ctx.S.slice_operand(body, c.args[1])
            ctx.check(2 in s.params and not s.has_field(PI, 'parameters'), 'C10.apply/constraints/state', 'T-CARRY', body.name, 'state passed to partial_evaluate does not derive from the given parameters', body.site(c.bb))
            errflow_calls(ctx, 'C10.apply/constraints/error', body, [c], 'error of partial_evaluate')
            lo = [l for l in loops if c.bb in l[4]]
            ctx.check(len(lo) == 1, 'C10.apply/constraints/loop', 'T-LOOPMUST', body.name, 'Constraint::partial_evaluate is not inside a loop over self.constraints', body.site(c.bb))
            for l in lo:
                loop_must(ctx, 'C10.apply/constraints/every-item', body, l, lambda x: x.bb == c.bb, 'constraint.partial_evaluate')
                r = ctx.S.slice_operand(body, c.args[0])
                ctx.check(l[0].dst['l'] in r.locals, 'C10.apply/constraints/receiver', 'T-CARRY', body.name, 'receiver is not the loop item', body.site(c.bb))
                ctx.check(all(body.dominates(l[1], e) for e in body.strict_ok_exits()), 'C10.apply/constraints/dominates', 'T-MUSTCALL', body.name, 'the constraint loop does not dominate the Ok-exit', body.site(c.bb))
        # ---- nothing else is modified
        writes_only(ctx, 'C10.unchanged/with_parameters', body, {'objective', 'constraints'})
        # ---- carry
        aggs = find_aggregates(body, INST)
        if len(aggs) != 1:
            ctx.bad('C10.carry/aggregate', 'ANCHOR', body.name, 'expected one v1::Instance aggregate, found %d' % len(aggs))
        else:
            st = aggs[0][1]
            for f in FIELDS:
                carry_field(ctx, 'C10.carry/with_parameters/' + f, body, st, f, need_fields=[(PI, f)])
            sp = carry_field(ctx, 'C10.carry/with_parameters/parameters', body, st, 'parameters', need_params=[2], not_fields=[(PI, 'parameters')])
            op = agg_field_operand(st, 'parameters')
            some = False
            if op and op['k'] in ('copy', 'move'):
                for k, bi, d in body.defs_of(op['pl']['l']):
                    if k == 'stmt' and d['rv']['k'] == 'agg' and d['rv']['adt'].endswith('Option::Some'): some = True
            ctx.check(some, 'C10.carry/with_parameters/parameters-some', 'T-CARRY', body.name, '`parameters` of the result is not Some(given)', body.site())
            fields = ctx.F.adt_fields(INST) or []
            ctx.check(set(fields) == set(FIELDS + ['parameters']), 'C10.carry/field-list', 'T-COVER', body.name, 'v1::Instance field list changed: %s' % sorted(set(fields) ^ set(FIELDS + ['parameters'])), body.site())
    # ---- From<Instance> for ParametricInstance
    fb = ctx.method('C10.anchor/from', PI, 'from', trait='From', targs=['v1::Instance'])
    if fb is not None:
        aggs = find_aggregates(fb, PI)
        if len(aggs) != 1:
            ctx.bad('C10.from/aggregate', 'ANCHOR', fb.name, 'expected one ParametricInstance aggregate, found %d' % len(aggs))
        else:
            st = aggs[0][1]
            for f in FIELDS:
                s = carry_field(ctx, 'C10.from/' + f, fb, st, f, need_fields=[(INST, f)])
                # and from no other field of the input
                if s is not None:
                    others = sorted(x for a, x in s.fields if a.endswith(INST) and x != f)
                    ctx.check(not others, 'C10.from/%s/only' % f, 'T-CARRY', fb.name, 'field `%s` also depends on %s' % (f, others), fb.site())
            carry_field(ctx, 'C10.from/parameters', fb, st, 'parameters', not_fields=[(INST, 'parameters')])
    ctx.floor('C10.guard', 1); ctx.floor('C10.apply', 12); ctx.floor('C10.carry', 11); ctx.floor('C10.from', 17)
