#!/usr/bin/env python3
"""tools/regress.py <PROP> [--repo WT] [--cache DIR] [--what base,seeds,refactors] [--only id,id] [--write]

Both-ways regression of one property's check against kept changes, in a work tree of your choice
(default /repo; pass a private git worktree when several people work at once):

  base       the unchanged work tree                          -> must exit 0
  seeds      /verif/seeded/<PROP>-*/patch.diff   (break it)    -> must exit 1 with a VIOLATION
  refactors  /verif/refactors/<PROP>-*/patch.diff (preserve)   -> must exit 0

Each patch is applied with `git -C WT apply`, the quick check runs with VERIF_REPO=WT, and the patch
is undone with `git -C WT checkout -- .`.  Evidence / replay files go to a scratch directory.
--write stores the verdict in the change's meta.json.  Exit 0 iff everything was as expected."""
import sys, os, subprocess, json, re, glob, tempfile, shutil

V = os.path.dirname(os.path.dirname(os.path.abspath(__file__)))


def sh(cmd, cwd=None, env=None):
    e = dict(os.environ); e['CARGO_NET_OFFLINE'] = 'true'
    if env: e.update(env)
    r = subprocess.run(cmd, shell=True, cwd=cwd, env=e, stdout=subprocess.PIPE, stderr=subprocess.STDOUT, text=True)
    return r.returncode, r.stdout


def opt(name, default=None):
    if name in sys.argv: return sys.argv[sys.argv.index(name) + 1]
    return default


def main():
    prop = sys.argv[1]
    wt = opt('--repo', os.environ.get('VERIF_REPO', '/repo'))
    cache = opt('--cache', os.environ.get('VERIF_CACHE'))
    what = opt('--what', 'base,seeds,refactors').split(',')
    only = opt('--only'); only = only.split(',') if only else None
    write = '--write' in sys.argv
    if sh('git -C %s status --porcelain' % wt)[1].strip():
        print('%s is not clean, refusing' % wt); sys.exit(2)
    scratch = tempfile.mkdtemp(prefix='regress-')
    env = {'VERIF_REPO': wt, 'VERIF_EVIDENCE_DIR': scratch + '/ev', 'VERIF_OUT_DIR': scratch + '/out'}
    if cache: env['VERIF_CACHE'] = cache
    bad = []

    def check():
        c, o = sh('./run check %s --tier quick' % prop, cwd=V, env=env)
        rules = re.findall(r'^\s+rule=(\S+) fn=(.*?) site=(\S*) :: (.*)$', o, re.M)
        return c, rules, o

    try:
        if 'base' in what:
            c, rules, o = check()
            print('%-12s exit=%d %s' % ('base', c, 'ok' if c == 0 else 'UNEXPECTED'))
            for r in rules: print('      %s :: %s' % (r[0], r[3][:170]))
            if c == 2: print(o[-1500:])
            if c != 0: bad.append('base')
        for kind, sub, want in (('seeds', 'seeded', 1), ('refactors', 'refactors', 0)):
            if kind not in what: continue
            for d in sorted(glob.glob('%s/%s/%s-*' % (V, sub, prop))):
                if not os.path.isdir(d) or not os.path.exists(d + '/patch.diff'): continue
                sid = os.path.basename(d)
                if only and sid not in only: continue
                try:
                    c, o = sh('git -C %s apply %s/patch.diff' % (wt, d))
                    if c != 0:
                        print('%-12s patch does not apply: %s' % (sid, o.strip()[:200])); bad.append(sid); continue
                    c, rules, o = check()
                finally:
                    sh('git -C %s checkout -- .' % wt)
                ok = (c == want) and (want == 0 or bool(rules))
                left_open = None
                if not ok and c != 2 and os.path.exists(d + '/meta.json'):
                    left_open = json.load(open(d + '/meta.json')).get('left_open')     # documented: not hardened, see DESIGN 11.3a
                print('%-12s %-9s exit=%d %s' % (sid, kind[:-1], c, 'ok' if ok else ('MISSED' if want == 1 else ('CHECKER-FAILURE' if c == 2 else 'FALSE ALARM'))) + (' (left open, documented)' if left_open else ''))
                for r in rules[:12]: print('      %s :: %s' % (r[0], r[3][:170]))
                if c == 2: print(o[-1500:])
                if not ok and not left_open: bad.append(sid)
                if write:
                    mp = d + '/meta.json'
                    meta = json.load(open(mp)) if os.path.exists(mp) else {}
                    if 'first_run' not in meta and prop in meta.get('checks', {}) and prop == meta.get('property'):
                        meta['first_run'] = dict(exit=meta['checks'][prop].get('exit'), rules=meta['checks'][prop].get('rules', []))   # verdict when the change arrived
                    meta.setdefault('checks', {})[prop] = dict(exit=c, rules=sorted({r[0] for r in rules}))
                    if want == 0: meta['silent'] = all(v.get('exit') == 0 for v in meta['checks'].values())
                    json.dump(meta, open(mp, 'w'), indent=1)
    finally:
        shutil.rmtree(scratch, ignore_errors=True)
    print('not as expected:', bad or 'none')
    sys.exit(1 if bad else 0)


if __name__ == '__main__':
    main()
