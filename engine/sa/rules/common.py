"""Rule templates as reusable functions over a Ctx (DESIGN.md §2.3)."""
import re
from ..dataflow import cone, field_access, adt_fields_touched
from ..facts import fields_of_place, place_str, operand_str
from .. import templates as T

DERIVE_TRAITS = ('Clone', 'PartialEq', 'Debug', 'Default', 'Message', 'Hash', 'Serialize', 'Deserialize', 'PartialOrd', 'Eq', 'Ord')


def is_derive_body(b):
    tr = (b.hdr.get('trait') or '')
    last = tr.split('::')[-1]
    return last in DERIVE_TRAITS


def cone_of(ctx, body, count_derives=False, depth=None):
    d = ctx.S.depth if depth is None else depth
    bodies = cone(ctx.F, body, maxdepth=d, stop=None if count_derives else is_derive_body)
    ctx.counters['cones'] += 1; ctx.counters['bodies_in_cones'] += len(bodies)
    return bodies


def cover(ctx, rule, body, adt, exempt=(), count_derives=False, only=None, reasons=None):
    """T-COVER: the cone of `body` touches every field of message type `adt` except `exempt`."""
    if body is None: return
    fields = ctx.F.adt_fields(adt)
    if fields is None:
        ctx.lost(rule, 'ADT ' + adt); return
    bodies = cone_of(ctx, body, count_derives)
    acc = field_access(bodies)
    touched = adt_fields_touched(acc, adt)
    want = [f for f in fields if f not in exempt] if only is None else list(only)
    for f in want:
        ctx.check(f in touched, '%s/%s' % (rule, f), 'T-COVER', body.name,
                  'field %s.%s is never accessed in the call-graph cone (%d bodies)' % (adt, f, len(bodies)),
                  body.site(), cone=len(bodies))
    for f in exempt:
        if f not in fields:
            ctx.lost(rule, 'exempt field %s.%s no longer exists' % (adt, f))


def find_aggregates(body, adt_suffix):
    out = []
    for bi, st in body.stmts():
        rv = st['rv']
        if rv['k'] == 'agg' and (rv['adt'] == adt_suffix or rv['adt'].endswith('::' + adt_suffix)):
            out.append((bi, st))
    return out


def agg_field_operand(st, field):
    rv = st['rv']
    if field in rv['fields']:
        return rv['ops'][rv['fields'].index(field)]
    return None


def slice_op(ctx, body, operand):
    ctx.counters['slices'] += 1
    return ctx.S.slice_operand(body, operand)


def carry_field(ctx, rule, body, agg_st, field, need_fields=(), need_calls=(), need_consts=(), not_fields=(), site=None, need_params=()):
    """T-CARRY: the operand initialising `field` of aggregate `agg_st` depends on the given sources."""
    op = agg_field_operand(agg_st, field)
    if op is None:
        ctx.bad(rule, 'T-CARRY', body.name, 'aggregate has no field ' + field); return None
    s = slice_op(ctx, body, op)
    return carry_slice(ctx, rule, body, s, 'field `%s`' % field, need_fields, need_calls, need_consts, not_fields, site, need_params)


def carry_slice(ctx, rule, body, s, what, need_fields=(), need_calls=(), need_consts=(), not_fields=(), site=None, need_params=()):
    missing = []
    for adt, f in need_fields:
        if not s.has_field(adt, f): missing.append('%s.%s' % (adt, f))
    for c in need_calls:
        if not s.has_call(c): missing.append('call ~ ' + c)
    for c in need_consts:
        if not s.has_const(c): missing.append('const ~ ' + c)
    for p in need_params:
        if p not in s.params: missing.append('parameter _%d' % p)
    forbidden = ['%s.%s' % (a, f) for a, f in not_fields if s.has_field(a, f)]
    detail = []
    if missing: detail.append('%s does not depend on: %s' % (what, ', '.join(missing)))
    if forbidden: detail.append('%s depends on: %s' % (what, ', '.join(forbidden)))
    ctx.check(not detail, rule, 'T-CARRY', body.name, '; '.join(detail), site or body.site(),
              slice_fields=sorted('%s.%s' % (a.split('::')[-1], f) for a, f in s.fields)[:24])
    return s


def guard(ctx, rule, body, call_pred, polarity, what, must_dominate=True, operand_need=None):
    """T-GUARD: a call matching call_pred yields a bool whose `polarity` side is the only way to the
    Ok-exits; the other side reaches Err-exits only."""
    if body is None: return None
    cands = [c for c in body.calls if call_pred(c)]
    best = None
    for c in cands:
        for g in T.guards_from_call(body, c):
            ctx.counters['cfg_paths'] += 1
            if g.requires(polarity) and (not must_dominate or g.dominates_ok_exits()):
                if operand_need is not None and not operand_need(c): continue
                best = (c, g); break
        if best: break
    if best:
        ctx.ok(rule, 'T-GUARD', body.site(best[0].bb), guard=what, shape=best[1].describe())
        return best
    if not cands:
        ctx.bad(rule, 'T-GUARD', body.name, 'no test `%s` found' % what, body.site())
    else:
        descr = '; '.join(g.describe() for c in cands for g in T.guards_from_call(body, c))[:300]
        ctx.bad(rule, 'T-GUARD', body.name, 'test `%s` does not guard the Ok-exits with polarity %s' % (what, polarity), body.site(cands[0].bb), seen=descr)
    return None


def errflow_calls(ctx, rule, body, calls, what, none_variant=0):
    """T-ERRFLOW on each given call's result"""
    for c in calls:
        res = T.errflow(body, c.dst['l'], none_variant=none_variant)
        ctx.counters['cfg_paths'] += 1
        bad = [h for k, h in res if k == 'bad']
        ctx.check(not bad, rule, 'T-ERRFLOW', body.name, '%s: %s' % (what, '; '.join(sorted(set(bad)))), body.site(c.bb),
                  consumers=[h for k, h in res])


def mustcall(ctx, rule, body, call_pred, what, propagate=True):
    """T-MUSTCALL: every Ok-exit is dominated by a call matching call_pred; its error propagates (`?`)"""
    if body is None: return None
    cands = [c for c in body.calls if call_pred(c)]
    oks = body.strict_ok_exits()
    good = []
    for c in cands:
        if all(body.dominates(c.bb, e) for e in oks):
            if propagate:
                arms = T.try_arms(body, c.dst['l'])
                if not arms:
                    # maybe adaptor chain / returned directly
                    res = T.errflow(body, c.dst['l'])
                    if any(k == 'bad' for k, _ in res): continue
            good.append(c)
    ctx.check(bool(good), rule, 'T-MUSTCALL', body.name, 'no call `%s` dominating every Ok-exit%s' % (what, ' with its error propagated' if propagate else ''),
              body.site(good[0].bb) if good else body.site())
    return good[0] if good else None


def const_arg(ctx, rule, body, call, idx, expect, what, tol=0.0):
    a = call.args[idx] if idx < len(call.args) else None
    val = T.f64_const(a['v']) if a and a['k'] == 'const' else None
    ok = val is not None and abs(val - expect) <= tol * abs(expect)
    ctx.check(ok, rule, 'T-CONST', body.name, '%s: expected constant %r, found %s' % (what, expect, operand_str(a) if a else 'nothing'), body.site(call.bb))
    return ok


RESTRICTING = ('take', 'skip', 'filter', 'step_by', 'take_while', 'skip_while', 'filter_map', 'nth', 'map_while', 'rev_take')


def loops_over(ctx, body, adt, field):
    """`for` loops whose iterator derives from field `adt.field` (and from no other loop's item)"""
    out = []
    for lo in T.for_loops(body):
        c = lo[0]
        s = ctx.S.slice_operand(body, c.args[0])
        ctx.counters['slices'] += 1
        if s.has_field(adt, field): out.append(lo)
    return out


def loop_must(ctx, rule, body, lo, call_pred, what):
    """T-LOOPMUST: every path from the `Some` arm back to the loop header passes a call matching call_pred"""
    c, header, some_bb, none_bb, blocks = lo
    via = {x.bb for x in body.calls if x.bb in blocks and call_pred(x)}
    ctx.counters['cfg_paths'] += 1
    ok = bool(via) and T.must_pass(body, some_bb, {header}, via)
    ctx.check(ok, rule, 'T-LOOPMUST', body.name, 'a path through the loop body skips `%s`' % what if via else 'loop body never reaches `%s`' % what, body.site(c.bb))
    # the iterator itself must not drop elements
    si = ctx.S.slice_operand(body, c.args[0])
    restr = sorted({x.item for x in si.call_objs if x.item in RESTRICTING and 'Iterator' in (x.trait or '')})
    ctx.check(not restr, rule + '/all-items', 'T-LOOPMUST', body.name, 'the loop iterator is restricted by %s' % restr, body.site(c.bb))
    return ok


def self_writes(ctx, body, root=1, _depth=0, _seen=None):
    """fields of the root parameter's ADT that may be written (assigned or mutably borrowed), following
    calls that receive the whole `&mut self`.  '*' = unknown (whole value escapes to a non-local callee)."""
    _seen = _seen if _seen is not None else set()
    if body.name in _seen or _depth > 6: return set()
    _seen.add(body.name)
    out = set()
    aliases = T.copies_of(body, root)            # plain copies / reborrows of the root
    # reborrows `&mut *_1`
    changed = True
    while changed:
        changed = False
        for bi, st in body.stmts():
            rv = st['rv']
            if rv['k'] == 'ref' and rv.get('mut') and rv['pl']['l'] in aliases and all(p == '*' for p in rv['pl']['p']) and not st['dst']['p']:
                if st['dst']['l'] not in aliases:
                    aliases |= T.copies_of(body, st['dst']['l']); changed = True
    def first_field(pl):
        for p in pl['p']:
            if isinstance(p, dict) and 'f' in p: return p['f']
        return None
    for bi, st in body.stmts():
        d = st['dst']; rv = st['rv']
        if d['l'] in aliases and d['p']:
            f = first_field(d)
            if f: out.add(f)
            elif any(p == '*' for p in d['p']): out.add('*')
        if rv['k'] == 'ref' and rv.get('mut') and rv['pl']['l'] in aliases:
            f = first_field(rv['pl'])
            if f: out.add(f)
        if rv['k'] == 'rawptr' and rv['pl']['l'] in aliases:
            f = first_field(rv['pl']); out.add(f or '*')
    for c in body.calls:
        for i, a in enumerate(c.args):
            if a['k'] in ('copy', 'move') and a['pl']['l'] in aliases and all(p == '*' for p in a['pl']['p']):
                l = a['pl']['l']
                if '&mut' not in body.locals[l] and not (l == root and not body.locals[l].startswith('&')):
                    continue
                if not body.locals[l].startswith('&mut') and l != root: continue
                if body.locals[l].startswith('&') and not body.locals[l].startswith('&mut'): continue
                cb = ctx.F.bodies.get(c.path)
                if cb is None:
                    if body.locals[l].startswith('&mut'): out.add('*:' + c.item)
                else:
                    out |= self_writes(ctx, cb, i + 1, _depth + 1, _seen)
    return out


def writes_only(ctx, rule, body, allowed, what='self'):
    w = self_writes(ctx, body)
    extra = sorted(x for x in w if x not in allowed)
    ctx.check(not extra, rule, 'T-ATOMIC', body.name, 'writes to %s outside %s: %s' % (what, sorted(allowed), extra), body.site(), writes=sorted(w))
    return w


def must_pass_or_none(ctx, rule, body, call, adt, field, what):
    """every path entry -> Ok-exit passes `call` or the None arm of a test on Option field adt.field"""
    via = {call.bb}
    for bi in body.live:
        t = body.blocks[bi]['term']
        if t['k'] == 'switch' and t['d']['k'] != 'const':
            dl = t['d']['pl']['l']
            for k, b2, st in body.defs_of(dl):
                if k == 'stmt' and st['rv']['k'] == 'discr':
                    s = ctx.S.backslice(body, [st['rv']['pl']['l']])
                    fs = set(fields_of_place(st['rv']['pl'])) | s.fields
                    if any(f == field and (a == adt or a.endswith('::' + adt)) for a, f in fs):
                        m = {v: tg for v, tg in t['ts']}
                        via.add(m.get(0, t['else']))
    ctx.counters['cfg_paths'] += 1
    ok = T.must_pass(body, 0, body.strict_ok_exits(), via)
    ctx.check(ok, rule, 'T-MUSTCALL', body.name, 'an Ok-exit is reachable without %s' % what, body.site(call.bb))
    return ok


def enum_variant_of_operand(ctx, body, operand):
    """resolve an operand that is (a reference to) a constant enum value to its variant path"""
    if operand['k'] == 'const':
        v = operand['v']
        pb = ctx.F.bodies.get(v)
        if pb is None:
            m = re.search(r'::promoted\[(\d+)\]$', v)
            if m: pb = ctx.F.bodies.get('%s::promoted[%s]' % (body.name, m.group(1)))
        if pb is not None:
            for bi, st in pb.stmts():
                if st['rv']['k'] == 'agg' and '::' in st['rv']['adt'] and not st['rv']['ops']:
                    return st['rv']['adt']
        return v
    l = operand['pl']['l']
    seen = set()
    while l not in seen:
        seen.add(l)
        defs = body.defs_of(l)
        if len(defs) != 1 or defs[0][0] != 'stmt': return None
        rv = defs[0][2]['rv']
        if rv['k'] == 'agg' and not rv['ops'] and '::' in rv['adt']: return rv['adt']
        if rv['k'] in ('use',) and rv['ops'][0]['k'] == 'const':
            return enum_variant_of_operand(ctx, body, rv['ops'][0])
        if rv['k'] == 'use' and rv['ops'][0]['k'] in ('copy', 'move'): l = rv['ops'][0]['pl']['l']; continue
        if rv['k'] == 'ref': l = rv['pl']['l']; continue
        return None
    return None


def enum_eq_guard(ctx, rule, body, enum_re, variant, equal_required, what, src_need=None):
    """T-GUARD on `x == Enum::Variant` / `x != Enum::Variant` (PartialEq::eq / ne on the enum type):
    the Ok-exits must require (x == variant) == equal_required."""
    cands = []
    for c in body.calls:
        if c.item in ('eq', 'ne') and 'PartialEq' in (c.trait or '') and re.search(enum_re, c.self_ty or ''):
            vs = [enum_variant_of_operand(ctx, body, a) for a in c.args]
            hit = [v for v in vs if v and v.endswith('::' + variant)]
            if not hit: continue
            if src_need is not None:
                others = [a for a, v in zip(c.args, vs) if not (v and v.endswith('::' + variant))]
                if not others or not src_need(ctx.S.slice_operand(body, others[0])): continue
            cands.append(c)
    for c in cands:
        pol = equal_required if c.item == 'eq' else (not equal_required)
        for g in T.guards_from_call(body, c):
            ctx.counters['cfg_paths'] += 1
            if g.requires(pol) and g.dominates_ok_exits():
                ctx.ok(rule, 'T-GUARD', body.site(c.bb), guard=what, shape=g.describe()); return c
    if not cands:
        ctx.bad(rule, 'T-GUARD', body.name, 'no test `%s` found' % what, body.site())
    else:
        ctx.bad(rule, 'T-GUARD', body.name, 'test `%s` does not guard the Ok-exits with the required polarity' % what, body.site(cands[0].bb))
    return None


def float_cmp_sites(body, ops=('Lt', 'Le', 'Gt', 'Ge', 'Eq', 'Ne')):
    """(bb, stmt) of f64 comparisons"""
    return [(bi, st) for bi, st in body.stmts() if st['rv']['k'] == 'bin' and st['rv']['op'] in ops and st['rv'].get('ty') == 'f64']


def fresh_id_rule(ctx, rule, body, op, what):
    """new ids derive from the largest defined decision-variable id plus one"""
    s = slice_op(ctx, body, op)
    probs = []
    if not s.has_field('v1::DecisionVariable', 'id'): probs.append('does not depend on the defined decision-variable ids')
    if not s.has_call(r'BTreeSet::<u64>::(last|pop_last)|BTreeMap::<.*>::last_key_value|Iterator>::max|::max_by_key|Ord>::max'):
        probs.append('does not take the maximum of the defined ids')
    if not (s.has_const(r'^1_u64$')): probs.append('no `+ 1`')
    ctx.check(not probs, rule, 'T-CARRY', body.name, '%s: %s' % (what, '; '.join(probs)), body.site())
    return s




def option_field_tests(body, adt, field):
    """`match` / `if let` on an Option-typed field adt.field: list of (switch_bb, some_target, none_target)"""
    out = []
    for bi in sorted(body.live):
        t = body.blocks[bi]['term']
        if t['k'] == 'switch' and t['d']['k'] != 'const':
            for k2, b2, d in body.defs_of(t['d']['pl']['l']):
                if k2 == 'stmt' and d['rv']['k'] == 'discr':
                    fs, root, calls = T.access_path(body, {'k': 'copy', 'pl': d['rv']['pl']})
                    if fs and fs[-1][1] == field and (fs[-1][0] == adt or fs[-1][0].endswith('::' + adt)):
                        m = {v: tg for v, tg in t['ts']}
                        out.append((bi, m.get(1, t['else']), m.get(0, t['else'])))
    return out
