#!/usr/bin/env python3
"""tools/thorough_all.py [--jobs N] [--props ..] [--tier thorough|quick] — run every property's check in parallel
(private cache each, evidence to a scratch directory unless --evidence), print one line per property."""
import sys, os, subprocess, re, concurrent.futures as cf, shutil
V = os.path.dirname(os.path.dirname(os.path.abspath(__file__)))
ROOT = os.path.join(os.environ.get('TMPDIR', '/tmp'), 'ommx-thorough-all')


def opt(name, default=None):
    if name in sys.argv: return sys.argv[sys.argv.index(name) + 1]
    return default


def job(prop):
    base = os.path.join(ROOT, prop); os.makedirs(base, exist_ok=True)
    env = dict(os.environ, VERIF_CACHE=os.path.join(base, 'cache'))
    if '--evidence' not in sys.argv:
        env.update(VERIF_EVIDENCE_DIR=os.path.join(base, 'ev'), VERIF_OUT_DIR=os.path.join(base, 'out'))
    r = subprocess.run([os.path.join(V, 'run'), 'check', prop, '--tier', opt('--tier', 'thorough')], cwd=V, env=env, stdout=subprocess.PIPE, stderr=subprocess.STDOUT, text=True)
    shutil.rmtree(os.path.join(base, 'cache'), ignore_errors=True)
    return prop, r.returncode, r.stdout


def main():
    props = opt('--props')
    props = props.split(',') if props else sorted(f[:-3] for f in os.listdir(os.path.join(V, 'engine/sa/rules')) if re.fullmatch(r'C\d+\.py', f))
    bad = []
    with cf.ThreadPoolExecutor(int(opt('--jobs', '4'))) as ex:
        for prop, code, out in ex.map(job, props):
            last = out.strip().split('\n')[-1] if out.strip() else ''
            print('%s exit=%d %s' % (prop, code, last[:160]), flush=True)
            if code != 0:
                bad.append(prop)
                for l in out.split('\n'):
                    if 'rule=' in l or 'CHECKER-FAILURE' in l: print('   ', l.strip()[:220])
    shutil.rmtree(ROOT, ignore_errors=True)
    print('not exit 0:', bad or 'none')
    sys.exit(1 if bad else 0)


if __name__ == '__main__':
    main()
