"""Shared analysis of the partial-evaluation kernels (C03, re-decided by C10).

Three layers, all working on the normal form (`VIEW = 'norm'`) of one body:

 1. `lnorm`    – a *local* normal form on top of sa.normalize: Option / bool combinators that take a
                 closure (`opt.map(f)`, `opt.map_or(d, f)`, `c.then(f)`, `it.partition(p)`, ...) are
                 rewritten as the `match` / loop they abbreviate, closure bodies spliced in.  The
                 rules then see the same control flow for `if let Some(x) = o { f(x) }` and
                 `o.map(f)`.
 2. `walk`     – path-sensitive forward reachability: the walker keeps the variants it knows
                 (`Some`/`None`, `Ok`/`Err`, `Continue`/`Break`, bool constants) of locals along the
                 path and follows only the matching arm of a switch on them.  Used for the case
                 regions of the "is this variable fixed?" probes and for error flow through several
                 levels of `?`.
 3. effects    – what a region does, in terms of labelled dataflow facts (fold into the constant,
                 accumulate into the map entry of an id, report an id, remove the entry, keep an
                 id), with a table of equivalent idioms per effect.
"""
import itertools
from .common import *
from ..facts import Body
from ..normalize import (Rewriter, Normalizer, mk_call, _mv, _cp, _pl, _use, _discr, _agg, _const, _ref, SOME0)

KNOWN = ('rows', 'columns', 'values', 'id', 'coefficient', 'ids', 'constant', 'terms', 'linear')


# =================================================================================================
# 1. local normal form
# =================================================================================================
# combinator (def path without generic arguments) -> what it abbreviates
COMBINATORS = {
    'std::option::Option::<T>::map':            'opt_map',          # match o { Some(x) => Some(f(x)), None => None }
    'std::option::Option::<T>::map_or':         'opt_map_or',       # match o { Some(x) => f(x), None => d }
    'std::option::Option::<T>::map_or_else':    'opt_map_or_else',  # match o { Some(x) => f(x), None => g() }
    'std::option::Option::<T>::and_then':       'opt_and_then',     # match o { Some(x) => f(x), None => None }
    'std::option::Option::<T>::unwrap_or_else': 'opt_unwrap_or_else',  # match o { Some(x) => x, None => g() }
    'std::option::Option::<T>::is_some_and':    'opt_is_some_and',  # match o { Some(x) => f(x), None => false }
    'core::bool::<impl bool>::then':            'bool_then',        # if c { Some(f()) } else { None }
    'std::result::Result::<T, E>::and_then':       'res_and_then',     # match r { Ok(x) => f(x), Err(e) => Err(e) }
    'std::result::Result::<T, E>::or_else':        'res_or_else',      # match r { Ok(x) => Ok(x), Err(e) => g(e) }
    'std::result::Result::<T, E>::unwrap_or_else': 'res_unwrap_or_else',  # match r { Ok(x) => x, Err(e) => g(e) }
    'std::result::Result::<T, E>::map_or':         'res_map_or',       # match r { Ok(x) => f(x), Err(_) => d }
    'std::result::Result::<T, E>::map_or_else':    'res_map_or_else',  # match r { Ok(x) => f(x), Err(e) => g(e) }
    'std::result::Result::<T, E>::is_ok_and':      'res_is_ok_and',    # match r { Ok(x) => f(x), Err(_) => false }
    'std::option::Option::<T>::ok_or_else':        'opt_ok_or_else',   # match o { Some(x) => Ok(x), None => Err(g()) }
    'std::option::Option::<T>::or_else':           'opt_or_else',      # match o { Some(x) => Some(x), None => g() }
    'std::ops::FnMut::call_mut':                'call_closure',     # f(a, b) for a local closure f: its body, here
    'std::ops::Fn::call':                       'call_closure',
    'std::ops::FnOnce::call_once':              'call_closure',
    'std::iter::Iterator::partition':           'partition',        # for x in it { if p(&x) { a.push(x) } else { b.push(x) } }
    'std::vec::Vec::<T, A>::retain':            'retain',           # for x in v.iter() { if !f(x) { <drop x from v> } }   (order kept)
    'std::vec::Vec::<T, A>::retain_mut':        'retain',
}


def _closure_of(F, rw, op):
    if op['k'] not in ('copy', 'move') or op['pl']['p']: return None
    d = rw.single_def(op['pl']['l'])
    if d is None or d[0] != 'stmt': return None
    rv = d[2]['rv']
    if rv['k'] == 'use' and rv['ops'][0]['k'] in ('copy', 'move') and not rv['ops'][0]['pl']['p']:
        return _closure_of(F, rw, rv['ops'][0])
    if rv['k'] == 'ref' and rv['pl']['p'] in ([], ['*']):
        return _closure_of(F, rw, {'k': 'copy', 'pl': {'l': rv['pl']['l'], 'p': []}})
    if rv['k'] != 'agg' or not rv['adt'].startswith('closure:'): return None
    cb = F.bodies.get(rv['adt'][8:])
    if cb is None: return None
    return cb.d, rv['ops']


def _payload(op, proj):
    return {'k': 'move', 'pl': {'l': op['pl']['l'], 'p': list(op['pl']['p']) + proj}}


# element-wise copies between a closure adaptor and the consumer: `it.filter(p).cloned().collect()` visits the
# same elements as `it.filter(p).collect()`; sa.normalize only looks at adaptors directly below the consumer
COPY_ADAPTORS = ('std::iter::Iterator::cloned', 'std::iter::Iterator::copied')


def _see_through_copies(F, rw, N):
    """drop `.cloned()` / `.copied()` standing between a closure adaptor and a consumer, then let
    sa.normalize rewrite the consumer as a loop"""
    from ..normalize import CLOSURE_ADAPTORS, CONSUMERS
    for bi, blk in enumerate(rw.blocks):
        t = blk['term']
        if blk['cleanup'] or t['k'] != 'call' or t['t'] < 0 or (t.get('rp') or t.get('fp')) not in COPY_ADAPTORS: continue
        a = t['args'][0]
        if a['k'] not in ('copy', 'move') or a['pl']['p'] or t['dst']['p']: continue
        d = rw.single_def(a['pl']['l'])
        if d is None or d[0] != 'call' or ((d[2].get('ri') or {}).get('item') not in CLOSURE_ADAPTORS) or (d[2].get('ri') or {}).get('trait') != 'std::iter::Iterator': continue
        users = [b2['term'] for b2 in rw.blocks if b2['term']['k'] == 'call' and any(x['k'] in ('copy', 'move') and x['pl']['l'] == t['dst']['l'] for x in b2['term']['args'])]
        if len(users) != 1 or (users[0].get('ri') or {}).get('item') not in CONSUMERS + ('from_iter', 'extend', 'into_iter'): continue
        blk['st'].append(_use(t['dst'], a, (t.get('span') or {}).get('lo', 0)))
        rw.goto(bi, t['t'])
        users[0].pop('desugared', None)
        rw.changed = True
        for _ in range(10):
            if not N._desugar_one(rw): break
        return True
    return False


def _split_chain(F, rw, N):
    """loop fusion by `chain`:  for x in a.chain(b) { body }   ==   for x in a { body }  for x in b { body }
    The loop (its natural-loop blocks) is duplicated, locals that live only inside it are renamed in the copy, the first
    loop runs over `a` and falls through to the second one over `b`.  Afterwards sa.normalize can splice the closure
    adaptors (`.map(f)`, `.filter_map(g)`) of each part into its loop."""
    import copy as _copy
    tmp = Body(rw.d)
    loops = tmp.loops()
    for bi in sorted(tmp.live):
        t = rw.blocks[bi]['term']
        if t['k'] != 'call' or (t.get('ri') or {}).get('item') != 'next' or not ((t.get('ri') or {}).get('trait') or '').endswith('Iterator') or t.get('chain_split'): continue
        cands = [(h, bl) for h, bl in loops.items() if bi in bl]
        if not cands or not t['args'] or t['args'][0]['k'] not in ('copy', 'move'): continue
        header, L = min(cands, key=lambda x: len(x[1]))
        # the iterator variable: follow `&mut` borrows from the argument of next() to a local defined outside the loop
        cur = t['args'][0]['pl']['l']
        for _ in range(6):
            d = rw.single_def(cur)
            if d is None or d[0] != 'stmt' or d[1] not in L: break
            rv = d[2]['rv']
            if rv['k'] == 'ref' and rv['pl']['p'] in ([], ['*']): cur = rv['pl']['l']; continue
            if rv['k'] == 'use' and rv['ops'][0]['k'] in ('copy', 'move') and not rv['ops'][0]['pl']['p']: cur = rv['ops'][0]['pl']['l']; continue
            break
        it = cur
        # ... which is (into_iter of) a chain(a, b)
        x = it; ch = None; into_iters = []
        for _ in range(8):
            d = rw.single_def(x)
            if d is None: break
            if d[0] == 'stmt':
                rv = d[2]['rv']
                if rv['k'] == 'use' and rv['ops'][0]['k'] in ('copy', 'move') and not rv['ops'][0]['pl']['p']: x = rv['ops'][0]['pl']['l']; continue
                if rv['k'] == 'ref' and rv['pl']['p'] in ([], ['*']): x = rv['pl']['l']; continue
                break
            ri = d[2].get('ri') or {}
            if ri.get('item') == 'into_iter' and d[2]['args'] and d[2]['args'][0]['k'] in ('copy', 'move') and not d[2]['args'][0]['pl']['p']:
                into_iters.append(d); x = d[2]['args'][0]['pl']['l']; continue
            if ri.get('item') == 'chain' and (ri.get('trait') or '').endswith('Iterator') and len(d[2]['args']) == 2 and d[1] not in L: ch = d
            break
        t['chain_split'] = True
        if ch is None: continue
        cbi, ct = ch[1], ch[2]
        if ct['t'] < 0 or ct['dst']['p'] or any(a['k'] not in ('copy', 'move') for a in ct['args']): continue
        # the switch on the Option returned by next(): its None target is where the first loop hands over
        sw = t['t']
        if sw < 0 or rw.blocks[sw]['term']['k'] != 'switch': continue
        swt = rw.blocks[sw]['term']
        none_t = dict((v, tb) for v, tb in swt['ts']).get(0)
        if none_t is None or none_t in L: continue
        # error / early exits of the loop body read locals of the body (`?` moves the Break payload out): they are copied
        # with the loop as long as they are a small loop-free tail; the regular exit (None arm) is not followed
        L0 = set(L)
        E = set(); work_ = []
        for u in L0:
            for v in tmp.succ(u):
                if v not in L0 and not (u == sw and v == none_t) and not rw.blocks[v]['cleanup']: work_.append(v)
        while work_:
            v = work_.pop()
            if v in E or v in L0: continue
            E.add(v)
            for w in tmp.succ(v):
                if not rw.blocks[w]['cleanup']: work_.append(w)
        copy_exits = len(E) <= 40 and none_t not in E and not any(rw.blocks[v]['term']['k'] == 'call' and (rw.blocks[v]['term'].get('ri') or {}).get('item') == 'next' for v in E)
        if copy_exits: L = L0 | E
        # The COPY becomes the first loop (over `a`); the original blocks stay the second loop (over `b`) and keep
        # their names, because the code after the loop may read locals of the last iteration.
        defs_in = {}; defs_out = set(); used_out = set()
        def defs_of_block(blk):
            out = set()
            for st in blk['st']:
                if 'dst' in st and '*' not in st['dst']['p']: out.add(st['dst']['l'])
            if blk['term']['k'] == 'call': out.add(blk['term']['dst']['l'])
            return out
        def uses_of_block(blk):
            out = set()
            for st in blk['st']:
                if 'dst' not in st: continue
                out.add(st['dst']['l']); rv = st['rv']
                for o in rv.get('ops', []):
                    if o['k'] in ('copy', 'move'): out.add(o['pl']['l'])
                if 'pl' in rv: out.add(rv['pl']['l'])
            tt = blk['term']
            if tt['k'] == 'call':
                out.add(tt['dst']['l'])
                for a in tt['args']:
                    if a['k'] in ('copy', 'move'): out.add(a['pl']['l'])
            elif tt['k'] == 'switch' and tt['d']['k'] != 'const': out.add(tt['d']['pl']['l'])
            elif tt['k'] == 'drop' and 'pl' in tt: out.add(tt['pl']['l'])
            return out
        din = set()
        for i2, blk in enumerate(rw.blocks):
            if i2 in L: din |= defs_of_block(blk)
            else: defs_out |= defs_of_block(blk); used_out |= uses_of_block(blk)
        # rename what is defined only inside the region; without copied exits also keep what the shared exit blocks read
        ren = {l: None for l in din if l not in defs_out and l > rw.d['argc'] and l != it and (copy_exits or l not in used_out)}
        for l in ren: ren[l] = rw.new_local(rw.locals[l])
        it2 = rw.new_local(rw.locals[it]); a2 = rw.new_local(rw.locals[ct['dst']['l']])
        ren[it] = it2
        bmap = {}
        base = len(rw.blocks)
        for k_, i2 in enumerate(sorted(L)): bmap[i2] = base + k_
        def mp(pl):
            q = []
            for p_ in pl['p']:
                if isinstance(p_, dict) and 'ix' in p_ and p_['ix'] in ren: p_ = dict(p_, ix=ren[p_['ix']])
                q.append(p_)
            return {'l': ren.get(pl['l'], pl['l']), 'p': q}
        def mo(o): return {'k': o['k'], 'pl': mp(o['pl'])} if o['k'] in ('copy', 'move') else o
        for i2 in sorted(L):
            blk = _copy.deepcopy(rw.blocks[i2])
            for st in blk['st']:
                if 'dst' not in st: continue
                st['dst'] = mp(st['dst']); rv = st['rv']
                if 'ops' in rv: rv['ops'] = [mo(o) for o in rv['ops']]
                if 'pl' in rv: rv['pl'] = mp(rv['pl'])
            tt = blk['term']; k = tt['k']
            if k == 'call':
                tt['args'] = [mo(a) for a in tt['args']]; tt['dst'] = mp(tt['dst'])
                if tt['t'] in bmap: tt['t'] = bmap[tt['t']]
                tt.pop('desugared', None); tt.pop('chain_split', None)
                if (tt.get('ri') or {}).get('item') == 'next': tt.pop('synthetic', None)
            elif k == 'switch':
                tt['d'] = mo(tt['d']); tt['ts'] = [[v, bmap.get(tb, tb)] for v, tb in tt['ts']]; tt['else'] = bmap.get(tt['else'], tt['else'])
            elif k in ('goto', 'drop', 'assert'):
                tt['t'] = bmap.get(tt['t'], tt['t'])
                if 'pl' in tt: tt['pl'] = mp(tt['pl'])
                if 'cond' in tt and isinstance(tt['cond'], dict): tt['cond'] = mo(tt['cond'])
            rw.blocks.append(blk)
        line = (t.get('span') or {}).get('lo', 0)
        # the copy's None arm hands over to the original header
        csw = rw.blocks[bmap[sw]]['term']
        csw['ts'] = [[v, (header if v == 0 else tb)] for v, tb in csw['ts']]
        # entry: edges into the original header from outside the loop go to the copy
        pre1 = rw.new_block([_use(it2, _mv(a2), line)], {'k': 'goto', 't': bmap[header]})
        for i2, blk in enumerate(rw.blocks[:base]):
            if i2 in L0: continue
            tt = blk['term']; k = tt['k']
            if k in ('goto', 'drop', 'assert', 'call') and tt.get('t') == header: tt['t'] = pre1
            elif k == 'switch':
                tt['ts'] = [[v, (pre1 if tb == header else tb)] for v, tb in tt['ts']]
                if tt['else'] == header: tt['else'] = pre1
        # chain(a, b): `a` feeds the first loop, the original iterator variable continues as `b`
        rw.blocks[cbi]['st'].append(_use(a2, ct['args'][0], line))
        rw.blocks[cbi]['st'].append(_use(ct['dst'], ct['args'][1], line))
        rw.goto(cbi, ct['t'])
        for d in into_iters:          # into_iter() of an iterator is the identity
            if d[1] not in L and d[2]['t'] >= 0 and not d[2]['dst']['p']:
                rw.blocks[d[1]]['st'].append(_use(d[2]['dst'], d[2]['args'][0], line)); rw.goto(d[1], d[2]['t'])
        t.pop('desugared', None); t.pop('chain_split', None); t.pop('synthetic', None)
        rw.changed = True
        for _ in range(20):
            if not N._desugar_one(rw): break
        return True
    return False


def _see_through_moves(F, rw, N):
    """`let it = xs.iter().filter_map(f); for x in it { .. }`: the adaptor value is moved through a local before
    `into_iter()`; sa.normalize only looks at an adaptor call directly below.  Point into_iter at the adaptor's result."""
    from ..normalize import CLOSURE_ADAPTORS
    for bi, blk in enumerate(rw.blocks):
        t = blk['term']
        if blk['cleanup'] or t['k'] != 'call' or t.get('moves_seen') or (t.get('ri') or {}).get('item') != 'into_iter' or not t['args']: continue
        a = t['args'][0]
        if a['k'] not in ('copy', 'move') or a['pl']['p']: continue
        t['moves_seen'] = True
        cur = a['pl']['l']; hops = 0
        for _ in range(6):
            d = rw.single_def(cur)
            if d is None or d[0] != 'stmt': break
            rv = d[2]['rv']
            if rv['k'] == 'use' and rv['ops'][0]['k'] in ('copy', 'move') and not rv['ops'][0]['pl']['p']: cur = rv['ops'][0]['pl']['l']; hops += 1; continue
            break
        d = rw.single_def(cur)
        if hops == 0 or d is None or d[0] != 'call' or (d[2].get('ri') or {}).get('item') not in CLOSURE_ADAPTORS or (d[2].get('ri') or {}).get('trait') != 'std::iter::Iterator': continue
        t['args'][0] = {'k': 'move', 'pl': {'l': cur, 'p': []}}
        for b2 in rw.blocks:
            t2 = b2['term']
            if t2['k'] == 'call' and (t2.get('ri') or {}).get('item') == 'next' and not t2.get('synthetic'): t2.pop('desugared', None)
        rw.changed = True
        for _ in range(10):
            if not N._desugar_one(rw): break
        return True
    return False


def _lnorm_one(F, rw, N):
    ENV = _const('()', 'env')
    if _see_through_copies(F, rw, N): return True
    if _see_through_moves(F, rw, N): return True
    if _split_chain(F, rw, N): return True
    for bi, blk in enumerate(rw.blocks):
        if blk['cleanup']: continue
        t = blk['term']
        if t['k'] != 'call' or t.get('lnormed') or t['t'] < 0: continue
        kind = COMBINATORS.get(t.get('rp') or t.get('fp') or '')
        if kind is None:
            cb_ = F.bodies.get(t.get('rp') or t.get('fp') or '')
            if cb_ is not None and cb_.kind == 'closure': kind = 'call_closure'      # the driver resolves `f(a, b)` on a local closure to its body
        if kind is None: continue
        t['lnormed'] = True
        a = t['args']; dst = t['dst']; after = t['t']; span = t.get('span'); line = (span or {}).get('lo', 0)
        B = rw.blocks
        if not a or a[0]['k'] not in ('copy', 'move'): continue
        cls = [_closure_of(F, rw, x) for x in a[1:]]
        def spl(ci, args, d, cont):
            return rw.splice(ci[0], [ENV] + args, d, cont, span, captures=ci[1])
        def blk_(st): return rw.new_block(st, {'k': 'goto', 't': after})
        def opt_switch(none_bb, some_bb):
            dl = rw.new_local('isize')
            B[bi]['st'].append(_discr(dl, a[0]['pl'], line))
            B[bi]['term'] = {'k': 'switch', 'd': _mv(dl), 'ts': [[0, none_bb], [1, some_bb]], 'else': rw.new_block()}
        some0 = _payload(a[0], SOME0)
        ok0 = _payload(a[0], [{'dc': 'Ok'}, {'f': '0', 'of': 'std::result::Result::Ok'}])
        err0 = _payload(a[0], [{'dc': 'Err'}, {'f': '0', 'of': 'std::result::Result::Err'}])
        def res_switch(ok_bb, err_bb):
            dl = rw.new_local('isize')
            B[bi]['st'].append(_discr(dl, a[0]['pl'], line))
            B[bi]['term'] = {'k': 'switch', 'd': _mv(dl), 'ts': [[0, ok_bb], [1, err_bb]], 'else': rw.new_block()}
        if kind == 'bool_then':
            if cls[0] is None: continue
            r = rw.new_local(cls[0][0]['locals'][0])
            some = blk_([_agg(dst, 'std::option::Option::Some', [_mv(r)], line=line)])
            none = blk_([_agg(dst, 'std::option::Option::None', [], line=line)])
            e = spl(cls[0], [], _pl(r), some)
            B[bi]['term'] = {'k': 'switch', 'd': a[0], 'ts': [[0, none]], 'else': e}
        elif kind == 'opt_map':
            if cls[0] is None: continue
            r = rw.new_local(cls[0][0]['locals'][0])
            some = blk_([_agg(dst, 'std::option::Option::Some', [_mv(r)], line=line)])
            none = blk_([_agg(dst, 'std::option::Option::None', [], line=line)])
            opt_switch(none, spl(cls[0], [some0], _pl(r), some))
        elif kind == 'opt_map_or':
            if cls[1] is None: continue
            none = blk_([_use(dst, a[1], line)])
            opt_switch(none, spl(cls[1], [some0], dst, after))
        elif kind == 'opt_map_or_else':
            if cls[0] is None or cls[1] is None: continue
            opt_switch(spl(cls[0], [], dst, after), spl(cls[1], [some0], dst, after))
        elif kind == 'opt_and_then':
            if cls[0] is None: continue
            none = blk_([_agg(dst, 'std::option::Option::None', [], line=line)])
            opt_switch(none, spl(cls[0], [some0], dst, after))
        elif kind == 'opt_unwrap_or_else':
            if cls[0] is None: continue
            some = blk_([_use(dst, some0, line)])
            opt_switch(spl(cls[0], [], dst, after), some)
        elif kind == 'opt_is_some_and':
            if cls[0] is None: continue
            none = blk_([_use(dst, _const('bool', 'false'), line)])
            opt_switch(none, spl(cls[0], [some0], dst, after))
        elif kind == 'res_and_then':
            if cls[0] is None: continue
            err = blk_([_agg(dst, 'std::result::Result::Err', [err0], line=line)])
            res_switch(spl(cls[0], [ok0], dst, after), err)
        elif kind == 'res_or_else':
            if cls[0] is None: continue
            ok = blk_([_agg(dst, 'std::result::Result::Ok', [ok0], line=line)])
            res_switch(ok, spl(cls[0], [err0], dst, after))
        elif kind == 'res_unwrap_or_else':
            if cls[0] is None: continue
            ok = blk_([_use(dst, ok0, line)])
            res_switch(ok, spl(cls[0], [err0], dst, after))
        elif kind == 'res_map_or':
            if cls[1] is None: continue
            err = blk_([_use(dst, a[1], line)])
            res_switch(spl(cls[1], [ok0], dst, after), err)
        elif kind == 'res_map_or_else':
            if cls[0] is None or cls[1] is None: continue
            res_switch(spl(cls[1], [ok0], dst, after), spl(cls[0], [err0], dst, after))
        elif kind == 'res_is_ok_and':
            if cls[0] is None: continue
            err = blk_([_use(dst, _const('bool', 'false'), line)])
            res_switch(spl(cls[0], [ok0], dst, after), err)
        elif kind == 'opt_ok_or_else':
            if cls[0] is None: continue
            r = rw.new_local(cls[0][0]['locals'][0])
            e_done = blk_([_agg(dst, 'std::result::Result::Err', [_mv(r)], line=line)])
            some = blk_([_agg(dst, 'std::result::Result::Ok', [some0], line=line)])
            opt_switch(spl(cls[0], [], _pl(r), e_done), some)
        elif kind == 'opt_or_else':
            if cls[0] is None: continue
            some = blk_([_agg(dst, 'std::option::Option::Some', [some0], line=line)])
            opt_switch(spl(cls[0], [], dst, after), some)
        elif kind == 'call_closure':
            # a local closure called directly (`let mut add = |k, v| ..; add(a, b)`) is an inline helper
            if len(a) != 2 or cls[0] is not None: pass
            ci = _closure_of(F, rw, a[0])
            if ci is None or a[1]['k'] not in ('copy', 'move'): continue
            n_args = ci[0]['argc'] - 1
            args = [_payload(a[1], [{'f': str(i), 'of': 'tuple'}]) for i in range(n_args)]
            rw.goto(bi, rw.splice(ci[0], [ENV] + args, dst, after, span, captures=ci[1]))
        elif kind == 'retain':
            # v.retain(f): every element is visited once, in order; the ones with f(&x) == false are dropped.  The drop is a
            # synthetic call `Vec::<T>::retain_drop(&mut v, x)` so that rules see "this element leaves v" as an effect.
            if cls[0] is None: continue
            vref = a[0]
            it = rw.new_local('?iter'); rv_ = rw.new_local('&?')
            head = rw.new_block(); done = rw.new_block()
            nm = 'core::slice::<impl [T]>::iter'
            B[bi]['st'].append(_ref(rv_, {'l': vref['pl']['l'], 'p': list(vref['pl']['p']) + ['*']}, False, line))
            B[bi]['term'] = mk_call(nm, nm, None, '[T]', 'iter', [_mv(rv_)], it, head, span)
            o, some = N._emit_next(rw, head, it, span, done)
            x = rw.new_local('&?'); r = rw.new_local('bool')
            B[some]['st'].append(_use(x, _mv(o, SOME0), line))
            nxt = rw.new_block(); drop = rw.new_block()
            rw.goto(some, spl(cls[0], [_cp(x)], _pl(r), nxt))
            B[nxt]['term'] = {'k': 'switch', 'd': _mv(r), 'ts': [[0, drop]], 'else': head}
            vr2 = rw.new_local('&mut ?'); out_ = rw.new_local('()')
            B[drop]['st'].append(_ref(vr2, {'l': vref['pl']['l'], 'p': list(vref['pl']['p']) + ['*']}, True, line))
            dn = 'std::vec::Vec::<T>::retain_drop'
            B[drop]['term'] = mk_call(dn, dn, None, 'std::vec::Vec::<T>', 'retain_drop', [_mv(vr2), _cp(x)], out_, head, span)
            B[done]['st'].append(_use(dst, _const('()', '()'), line))
            rw.goto(done, after)
        elif kind == 'partition':
            if cls[0] is None or a[0]['pl']['p']: continue
            it = rw.new_local('?iter'); va = rw.new_local('std::vec::Vec<?>'); vb = rw.new_local('std::vec::Vec<?>')
            B[bi]['st'].append(_use(it, a[0], line))
            nb1 = rw.new_block(); head = rw.new_block(); done = rw.new_block()
            new = 'std::vec::Vec::<T>::new'
            B[bi]['term'] = mk_call(new, new, None, 'std::vec::Vec::<T>', 'new', [], va, nb1, span)
            B[nb1]['term'] = mk_call(new, new, None, 'std::vec::Vec::<T>', 'new', [], vb, head, span)
            o, some = N._emit_next(rw, head, it, span, done)
            il = rw.new_local('?'); rl = rw.new_local('&?'); r = rw.new_local('bool')
            B[some]['st'] += [_use(il, _mv(o, SOME0), line), _ref(rl, _pl(il), False, line)]
            nxt = rw.new_block(); pa = rw.new_block(); pb = rw.new_block()
            rw.goto(some, spl(cls[0], [_mv(rl)], _pl(r), nxt))
            B[nxt]['term'] = {'k': 'switch', 'd': _mv(r), 'ts': [[0, pb]], 'else': pa}
            N._emit_push(rw, pa, va, 'Vec', _cp(il), span, head)
            N._emit_push(rw, pb, vb, 'Vec', _cp(il), span, head)
            B[done]['st'].append(_agg(dst, 'tuple', [_mv(va), _mv(vb)], line=line))
            rw.goto(done, after)
        else:
            continue
        rw.changed = True
        return True
    return False


def lnorm(ctx, body):
    """the body with closure combinators rewritten as control flow (a new Body named `<fn>~`; `.orig`
    is the original).  Identity when there is nothing to rewrite."""
    if body is None: return None
    cache = ctx.__dict__.setdefault('_pe_lnorm', {})
    if body.name in cache: return cache[body.name]
    rw = Rewriter(body.d); N = Normalizer(ctx.F)
    for _ in range(40):
        if not _lnorm_one(ctx.F, rw, N): break
    if not rw.changed:
        nb = body
    else:
        d = rw.d; d['fn'] = body.name + '~'
        nb = Body(d); nb.facts = ctx.F
    nb.orig = body
    cache[body.name] = nb
    return nb


def fn_of(body):
    o = getattr(body, 'orig', None)
    return o.name if o is not None else body.name


# =================================================================================================
# 2. path-sensitive reachability
# =================================================================================================
VARIANT = (('Option::None', 0), ('Option::Some', 1), ('Result::Ok', 0), ('Result::Err', 1),
           ('ControlFlow::Continue', 0), ('ControlFlow::Break', 1))
# calls whose result has the same variant as their first argument
SAME_VARIANT = re.compile(r'^std::option::Option::<.*>::(copied|cloned|as_ref|as_mut|as_deref|as_deref_mut|map|inspect)(::<.*>)?$|'
                          r'^std::result::Result::<.*>::(as_ref|as_mut|map|map_err|inspect|inspect_err|copied|cloned)(::<.*>)?$')
IS_VARIANT = {'is_some': ('Option', 1), 'is_none': ('Option', 0), 'is_ok': ('Result', 0), 'is_err': ('Result', 1)}


def pkey(pl):
    """env key of a place: derefs ignored, tuple fields kept, anything else untracked"""
    ps = []
    for p in pl['p']:
        if p == '*': continue
        if isinstance(p, dict) and 'f' in p and p.get('of') == 'tuple': ps.append(p['f']); continue
        return None
    return (pl['l'], tuple(ps))


def _variant_of_adt(adt):
    for suf, v in VARIANT:
        if adt.endswith(suf): return v
    return None


def _kill(e, l):
    for k in [k for k in e if k[0] == l]: del e[k]


def _step_block(body, bi, e, untracked, assume=None):
    """transfer of block bi on env e (mutated); returns successors to follow"""
    blk = body.blocks[bi]
    for st in blk['st']:
        if 'dst' not in st: continue
        d = st['dst']; rv = st['rv']; k = rv['k']
        dk = pkey(d)
        if dk is None or d['l'] in untracked:
            _kill(e, d['l']); continue
        if dk[1]:
            for kk in [kk for kk in e if kk[0] == dk[0] and kk[1][:len(dk[1])] == dk[1]]: del e[kk]
        else:
            _kill(e, d['l'])
        if '*' in d['p']: continue
        o = rv['ops'][0] if rv.get('ops') else None
        if k == 'use':
            if o['k'] == 'const':
                if o['v'] in ('true', 'false'): e[dk] = 1 if o['v'] == 'true' else 0
            elif o['k'] in ('copy', 'move'):
                sk = pkey(o['pl'])
                if sk is not None:
                    for kk in [kk for kk in e if kk[0] == sk[0] and kk[1][:len(sk[1])] == sk[1]]:
                        e[(dk[0], dk[1] + kk[1][len(sk[1]):])] = e[kk]
        elif k == 'ref':
            sk = pkey(rv['pl'])
            if sk is not None and not rv.get('mut'):
                for kk in [kk for kk in e if kk[0] == sk[0] and kk[1][:len(sk[1])] == sk[1]]:
                    e[(dk[0], dk[1] + kk[1][len(sk[1]):])] = e[kk]
        elif k == 'un' and rv['op'] == 'Not':
            if o['k'] in ('copy', 'move'):
                sk = pkey(o['pl'])
                if sk in e and e[sk] in (0, 1) and body.locals[d['l']] == 'bool': e[dk] = 1 - e[sk]
        elif k == 'discr':
            sk = pkey(rv['pl'])
            if sk in e: e[dk] = e[sk]
            elif assume is not None:
                v = assume(rv['pl'])
                if v is not None: e[dk] = v
        elif k == 'agg':
            v = _variant_of_adt(rv['adt'])
            if v is not None: e[dk] = v
            elif rv['adt'] == 'tuple':
                for i, o2 in enumerate(rv['ops']):
                    if o2['k'] in ('copy', 'move'):
                        sk = pkey(o2['pl'])
                        if sk is not None:
                            for kk in [kk for kk in e if kk[0] == sk[0] and kk[1][:len(sk[1])] == sk[1]]:
                                e[(dk[0], dk[1] + (str(i),) + kk[1][len(sk[1]):])] = e[kk]
                    elif o2['k'] == 'const' and o2['v'] in ('true', 'false'):
                        e[(dk[0], dk[1] + (str(i),))] = 1 if o2['v'] == 'true' else 0
    t = blk['term']
    succs = body.succ(bi)
    if t['k'] == 'call':
        d = t['dst']; dk = pkey(d); nm = t['r'] or t['f']
        a0 = t['args'][0] if t['args'] else None
        ak = pkey(a0['pl']) if a0 is not None and a0['k'] in ('copy', 'move') else None
        av = e.get(ak) if ak is not None else None
        _kill(e, d['l'])
        if dk is not None and not dk[1] and d['l'] not in untracked:
            item = (t.get('ri') or {}).get('item')
            if T.NOT_CALL.search(nm):
                if av in (0, 1): e[dk] = 1 - av
            elif T.TRY_BRANCH.search(nm):
                if av is not None:
                    is_opt = nm.startswith('<std::option::Option')
                    e[dk] = (0 if av == 1 else 1) if is_opt else av      # Some -> Continue, None -> Break; Ok -> Continue, Err -> Break
            elif 'FromResidual' in nm and item == 'from_residual':
                if nm.startswith('<std::result::Result'): e[dk] = 1
                elif nm.startswith('<std::option::Option'): e[dk] = 0
            elif SAME_VARIANT.search(T.strip_generics_tail(nm)) or SAME_VARIANT.search(nm):
                if av is not None: e[dk] = av
            elif item == 'transpose' and nm.startswith('std::option::Option::<'):
                if av == 0: e[dk] = 0          # None.transpose() == Ok(None); Some(r).transpose() depends on r
            elif item in IS_VARIANT and re.match(r'^std::(option::Option|result::Result)::<', nm):
                if av is not None: e[dk] = 1 if av == IS_VARIANT[item][1] else 0
    elif t['k'] == 'switch' and t['d']['k'] != 'const':
        sk = pkey(t['d']['pl'])
        if sk in e:
            m = {val: tg for val, tg in t['ts']}
            succs = [m.get(e[sk], t['else'])]
    return succs


def walk(body, starts, stop=(), env0=None, avoid=(), assume=None):
    """blocks reachable from `starts` along paths consistent with what is known about enum / bool
    locals (env0: {(local, tuple_fields): variant}).  `stop` blocks end a path (not included),
    `avoid` blocks are not entered.  `assume(place) -> variant | None` fixes the discriminant read from a place the
    walker does not track (e.g. "self.function is the Quadratic variant").
    Returns (blocks, reached_stop)."""
    untracked = T._mut_borrowed(body)
    seen = set(); out = set(); hit = False
    work = [(s, frozenset((env0 or {}).items())) for s in starts]
    n = 0
    while work:
        bi, fe = work.pop()
        if bi in stop: hit = True; continue
        if bi in avoid: continue
        if (bi, fe) in seen: continue
        seen.add((bi, fe)); out.add(bi); n += 1
        if n > 60000:
            r = body.reach(list(starts), set(stop) | set(avoid))
            return r, True
        e = dict(fe)
        succs = _step_block(body, bi, e, untracked, assume)
        fe2 = frozenset(e.items())
        for s in succs:
            if body.blocks[s]['cleanup']: continue
            work.append((s, fe2))
    return out, hit


def reaches(body, starts, targets, env0=None):
    r, _ = walk(body, starts, env0=env0)
    return bool(r & set(targets))


# ------------------------------------------------------------------------------- error flow
ERR_ADAPTORS = re.compile(T.ERR_ADAPTORS.pattern + r'|Option::<.*>::transpose$|Result::<.*>::transpose$|Result::<.*>::inspect_err(::<.*>)?$')


def _err_variant(body, local):
    ty = body.locals[local].lstrip('&').replace('mut ', '')
    if ty.startswith('std::result::Result'): return 1
    return 0


def errflow(body, local, depth=0):
    """How is the Option/Result in `local` consumed?  ('ok'|'bad', how) findings.  Allowed: adaptor
    chain ending in `?` whose Break arm reaches no Ok-exit (path-sensitively: an error that is
    re-wrapped by an inlined helper / spliced closure and `?`-ed again in the caller is followed through
    every level), a `match` whose None/Err arm reaches no Ok-exit, wrapping into Some(..)/Ok(..) of a
    value that is consumed in an allowed way, or being returned."""
    res = []
    if depth > 8: return [('bad', 'adaptor chain too deep')]
    if local == 0: return [('ok', 'returned')]
    oks = body.strict_ok_exits()
    uses = body.uses.get(local, ())
    if not uses: return [('bad', 'result unused (dropped)')]
    for kind, bi, x in uses:
        if kind == 'call':
            name = x.name
            if T.TRY_BRANCH.search(name):
                arms = T.try_arms(body, local)
                if arms:
                    if reaches(body, [arms[1]], oks, {(x.dst['l'], ()): 1}): res.append(('bad', 'Break arm of ? reaches an Ok-exit'))
                    else: res.append(('ok', '?'))
                else: res.append(('bad', 'Try::branch without switch'))
            elif ERR_ADAPTORS.search(name):
                sub = errflow(body, x.dst['l'], depth + 1)
                res += [(k, '%s -> %s' % (x.item, h)) for k, h in sub]
            elif T.ERR_BAD.search(name):
                res.append(('bad', 'consumed by ' + x.item))
            else:
                res.append(('bad', 'passed to ' + name[:60]))
        elif kind == 'stmt':
            rv = x['rv']
            if rv['k'] == 'discr':
                nv = _err_variant(body, local)
                for k3, b3, sw in body.uses.get(x['dst']['l'], ()):
                    if k3 != 'switch': continue
                    m = {v: t for v, t in sw['ts']}
                    tgt = m.get(nv, sw['else'])
                    if reaches(body, [tgt], oks, {(local, ()): nv}): res.append(('bad', 'None/Err side of match reaches an Ok-exit'))
                    else: res.append(('ok', 'match: None/Err side reaches only Err-exits'))
            elif rv['k'] == 'use' and x['dst']['p'] == []:
                o = rv['ops'][0]
                if o['k'] in ('copy', 'move') and o['pl']['l'] == local and o['pl']['p'] == []:
                    if x['dst']['l'] == 0: res.append(('ok', 'returned'))
                    else: res += errflow(body, x['dst']['l'], depth + 1)
            elif rv['k'] == 'ref':
                res += errflow(body, x['dst']['l'], depth + 1)
            elif rv['k'] == 'agg' and x['dst']['p'] == [] and re.search(r'(Option::Some|Result::Ok|ControlFlow::Continue|ControlFlow::Break)$', rv['adt']):
                # Some(result) / Break(result): the wrapped value is consumed further on (transpose()?, from_residual)
                if x['dst']['l'] == 0: res.append(('ok', 'returned'))
                else: res += [(k, 'wrapped -> ' + h) for k, h in errflow(body, x['dst']['l'], depth + 1)]
    if not res: res.append(('bad', 'no recognised consumer'))
    return res


def errflow_calls(ctx, rule, body, calls, what):
    for c in calls:
        res = errflow(body, c.dst['l'])
        ctx.counters['cfg_paths'] += 1
        bad = [h for k, h in res if k == 'bad']
        ctx.check(not bad, rule, 'T-ERRFLOW', fn_of(body), '%s: %s' % (what, '; '.join(sorted(set(bad)))), body.site(c.bb), consumers=[h for k, h in res])


# =================================================================================================
# 3. labels and effects
# =================================================================================================
# "is this id fixed?" probes of the state, all equivalent:
#   state.entries.get(&id)           -> Option<&f64>   (Some = fixed)
#   state.entries.contains_key(&id)  -> bool           (true = fixed)
#   state.entries.get_key_value(&id) -> Option<(&u64, &f64)>
STATE_PROBE = re.compile(r'HashMap::<u64, f64>::(get|contains_key|get_key_value)(::<.*>)?$')
STATE_GET = r'HashMap::<u64, f64>::get'
# value of a fixed id:  *state.entries.get(&id)  |  state.entries[&id]
STATE_VALUE = re.compile(r'HashMap::<u64, f64>::get(::<.*>)?$|<std::collections::HashMap<u64, f64> as std::ops::Index<&u64>>::index$')


def is_state_map(body, operand):
    return ('v1::State', 'entries') in T.access_path(body, operand)[0]


def _only_unwrapped(body, local, depth=0):
    """the Option in `local` is never tested, only unwrapped (`.unwrap()`, `.expect(..)`, `.copied().unwrap()`): a value read"""
    uses = body.uses.get(local, ())
    if not uses or depth > 4: return False
    for kind, bi, x in uses:
        if kind != 'call': return False
        if x.item in ('unwrap', 'expect', 'unwrap_unchecked') and 'Option' in x.name: continue
        if x.item in ('copied', 'cloned', 'as_ref') and 'Option' in x.name and _only_unwrapped(body, x.dst['l'], depth + 1): continue
        return False
    return True


def probes_in(body, blocks=None):
    """state lookups whose outcome is tested (a lookup that is only unwrapped reads the value of an id known to be fixed)"""
    out = []
    for c in body.calls:
        if STATE_PROBE.search(c.name) and c.args and is_state_map(body, c.args[0]):
            if c.item == 'get' and _only_unwrapped(body, c.dst['l']): continue
            if blocks is None or c.bb in blocks: out.append(c)
    return out


def _place_sig(e):
    """(base, fields) of a projection expression; base = ('call', bb) | ('local', l)"""
    fs = []
    while e[0] == 'proj':
        fs = list(e[2]) + fs; e = e[1]
    if e[0] == 'place': return ('local', e[1]), list(e[2]) + fs
    if e[0] == 'local': return ('local', e[1]), fs
    if e[0] == 'call' and len(e) > 4: return ('call', e[4]), fs
    return None, fs


def holder_of(body, e):
    """a value moved out of a struct field lives in a local of its own (`let Monomial { mut ids, .. } = m;`): the local
    that was initialised with exactly the place expression `e`"""
    if e[0] not in ('place', 'proj') or not e[2] or not any('v1::' in a for a, f in e[2]): return None
    sig = _place_sig(e)
    if sig[0] is None: return None
    for bi, st in body.stmts():
        rv = st['rv']
        if not st['dst']['p'] and rv['k'] == 'use' and rv['ops'][0]['k'] in ('copy', 'move') and fields_of_place(rv['ops'][0]['pl']) \
                and len(body.defs_of(st['dst']['l'])) == 1 and _place_sig(T.expr(body, rv['ops'][0], depth=24)) == sig:
            return st['dst']['l']
    return None


def coll_root(body, operand):
    """the local collection an iterator / reference operand was made from (`v.iter()`, `&v`, `&mut v`,
    `v.into_iter()`, also when v is a component of a freshly built tuple), else None"""
    e = through_payload(body, T.expr(body, operand))
    for _ in range(12):
        if e[0] == 'place' and e[2]: e = through_payload(body, e)
        if e[0] == 'call' and e[3] and (ITER_TRANSPARENT.search(T.strip_generics_tail(e[2])) or T.TRANSPARENT.search(T.strip_generics_tail(e[2]))): e = e[3][0]; continue
        break
    if e[0] == 'call' and len(e) > 4:          # a local collection made by a call (`Vec::new()`, `x.collect()`, `f(..)`)
        for c in body.calls:
            if c.bb == e[4] and not c.dst['p']: return c.dst['l']
    if e[0] == 'local' or (e[0] == 'place' and not e[2]):
        return e[1] if e[1] > body.argc else None
    return holder_of(body, e)


def loop_items(body):
    """local holding the `next()` result of a `for` loop -> the local collection it iterates"""
    m = getattr(body, '_pe_loop_items', None)
    if m is not None: return m
    m = {}
    for lo in T.for_loops(body):
        c = lo[0]
        root = coll_root(body, c.args[0])
        if root is not None: m[c.dst['l']] = root
    body._pe_loop_items = m
    return m


ITER_TRANSPARENT = re.compile(r'::(into_iter|iter|iter_mut|as_ref|as_mut|deref|deref_mut|as_slice|borrow)(::<.*>)?$')


SIBLING = {'Option::Some': ('Option::None',), 'Result::Ok': ('Result::Err',), 'ControlFlow::Continue': ('ControlFlow::Break',)}


def through_payload(body, e, _depth=0):
    """T.expr stops at a local with several definitions.  When that local is an Option / Result built on several paths
    (the result of a spliced `opt.map(..)`, `filter_map` closure, a `match` producing Some(..) / None) and the expression
    reads its payload, the payload can only be the operand of the single `Some(..)` / `Ok(..)` definition: continue there."""
    if _depth > 6 or e[0] != 'place' or not e[2]: return e
    owner = next((k for k in SIBLING if e[2][0][0].endswith(k)), None)
    if owner is None: return e
    defs = [d for d in body.defs_of(e[1]) if not (d[0] == 'stmt' and d[2]['dst']['p'])]
    some = [d for d in defs if d[0] == 'stmt' and d[2]['rv']['k'] == 'agg' and d[2]['rv']['adt'].endswith(owner)]
    rest = [d for d in defs if d not in some]
    if len(some) != 1 or not all(d[0] == 'stmt' and d[2]['rv']['k'] == 'agg' and d[2]['rv']['adt'].endswith(SIBLING[owner]) or (d[0] == 'call' and 'from_residual' in (d[2]['r'] or d[2]['f'])) for d in rest): return e
    inner = T.expr(body, some[0][2]['rv']['ops'][0], depth=24)
    fs = list(e[2][1:])
    while fs and inner[0] == 'agg' and inner[1] == 'tuple' and fs[0][0] == 'tuple' and fs[0][1].isdigit() and int(fs[0][1]) < len(inner[2]):
        inner = inner[2][int(fs[0][1])]; fs = fs[1:]
    if fs:
        if inner[0] == 'place': inner = ('place', inner[1], inner[2] + fs)
        elif inner[0] == 'proj': inner = ('proj', inner[1], inner[2] + fs)
        else: inner = ('proj', inner, fs)
    return through_payload(body, inner, _depth + 1)


def label(body, e, _depth=0):
    e0 = T.strip_wrappers(through_payload(body, T.strip_wrappers(e)))
    if e0[0] == 'const': return 'const:' + e0[1]
    # value of a state lookup?
    x = e0
    while True:
        if x[0] == 'call' and STATE_VALUE.search(x[2]) and len(x[3]) > 1:
            return 'val[%s]' % label(body, x[3][1], _depth + 1)
        if x[0] == 'proj' and not any('v1::' in a for a, f in x[2]): x = T.strip_wrappers(x[1]); continue
        break
    f = outer_field(e0)
    if f: return f
    # the item of a loop over a local collection is labelled like the collection's elements
    if _depth < 4:
        x = e0
        while x[0] == 'proj' and not any('v1::' in a for a, f in x[2]): x = T.strip_wrappers(x[1])
        if x[0] == 'call' and x[1] == 'next' and len(x) > 4:
            for c in body.calls:
                if c.bb == x[4]:
                    root = loop_items(body).get(c.dst['l'])
                    if root is not None:
                        pl = pushed_labels(body, root, _depth + 1)
                        if len(pl) == 1: return next(iter(pl))
    if e0[0] in ('local', 'place'): return '_%d' % e0[1]
    return T.expr_str(e0, 3)


VEC_PUSH = re.compile(r'Vec::<(u64|T)>::push$')


def pushed_labels(body, vec_local, _depth=0):
    out = set()
    for c in body.calls:
        if c.item == 'push' and VEC_PUSH.search(c.name) and root_of(body, c.args[0]) == vec_local:
            out.add(label(body, T.expr(body, c.args[1]), _depth))
    return out


def outer_field(e):
    e = T.strip_wrappers(e)
    if e[0] in ('proj', 'place') and e[2]:
        named = [f for a, f in e[2] if 'v1::' in a and f in KNOWN]
        if named: return named[-1]
        return outer_field(e[1]) if e[0] == 'proj' else None
    if e[0] == 'call' and e[3]: return outer_field(e[3][0])
    return None


ROOT_TRANSPARENT = T.TRANSPARENT_NOCLONE


def root_of(body, operand):
    """the local a reference / moved value originates from: follows references, plain moves, components of freshly
    built tuples (`let (a, b) = f_inlined(..)`), transparent calls (not clone); a value made by any other call is
    rooted at that call's destination.  Multi-definition locals and parameters are their own roots."""
    if operand['k'] not in ('copy', 'move'): return None
    e = T.expr(body, operand, depth=24)
    for _ in range(24):
        if e[0] == 'place' and e[2]:
            e2 = through_payload(body, e)
            if e2 is not e: e = e2; continue
        if e[0] == 'call' and e[3] and ROOT_TRANSPARENT.search(T.strip_generics_tail(e[2])): e = e[3][0]; continue
        if e[0] == 'proj' and all(T.WRAPPER_OWNER.search(a) for a, f in e[2]): e = e[1]; continue
        break
    if e[0] == 'call' and len(e) > 4:
        for c in body.calls:
            if c.bb == e[4]: return c.dst['l'] if not c.dst['p'] else None
    if e[0] == 'local': return e[1]
    if e[0] == 'place':
        h = holder_of(body, e)
        return h if h is not None else e[1]
    if e[0] == 'proj':
        h = holder_of(body, e)
        if h is not None: return h
        x = e[1]
        while x[0] == 'proj': x = x[1]
        if x[0] == 'call' and len(x) > 4:
            for c in body.calls:
                if c.bb == x[4]: return c.dst['l'] if not c.dst['p'] else None
        if x[0] in ('local', 'place'): return x[1]
    return T.access_path(body, operand, transparent=T.TRANSPARENT_NOCLONE)[1]


def acc_class(body, local, _seen=None):
    """an accumulator may continue in another local: `let (m, mut c) = helper(..)` (inlined: c = tuple.1 = helper's c),
    `let mut c = c0;`.  Returns the locals that hold the running value, following initialisations that are plain moves
    of another multi-definition f64 local."""
    seen = _seen if _seen is not None else set()
    if local in seen: return seen
    seen.add(local)
    init, ups = acc_defs(body, local)
    for x, bi in init:
        x = T.strip_wrappers(x)
        if x[0] == 'local' and x[1] > body.argc and 'f64' in body.locals[x[1]]: acc_class(body, x[1], seen)
    return seen


def case_region(body, start, assignment, probes, stop, avoid=()):
    """blocks reachable from `start` when probe i's result is assignment[i] (1 = fixed).
    With `avoid`: returns None if a stop block is reachable without passing a block in `avoid`."""
    env0 = {(p.dst['l'], ()): a for p, a in zip(probes, assignment)}
    r, hit = walk(body, [start], stop=set(stop), env0=env0, avoid=set(avoid))
    if avoid: return None if hit else r
    return r


class _Eff(set):
    def __init__(self, where):
        super().__init__(); self.where = where; self.cur = None
    def add(self, e):
        super().add(e)
        if self.where is not None and self.cur is not None: self.where.setdefault(e, set()).add(self.cur)


SET_INSERT = re.compile(r'BTreeSet::<(u64|T)>::insert$')
MAP_KV = r'BTreeMap::<(u64|std::vec::Vec<u64>|K), (f64|V)>'
ZERO = ('const', '0f64')


def _is_zero(e):
    e = T.strip_wrappers(e)
    return e[0] == 'const' and e[1] in ('0f64', '-0f64') or (e[0] == 'call' and e[1] == 'default' and not e[3])


def entry_of(body, ex):
    """for the expression of a `&mut f64` obtained from the entry API: (key expr, map operand expr, zero_default) or None.
         m.entry(k).or_insert(0.0) | m.entry(k).or_default() | m.entry(k).or_insert_with(|| 0.0)"""
    for x in T.expr_walk(ex):
        if x[0] == 'call' and x[1] in ('or_insert', 'or_default', 'or_insert_with') and x[3]:
            ent = [y for y in T.expr_walk(x[3][0]) if y[0] == 'call' and y[1] == 'entry']
            if not ent: continue
            zero = x[1] == 'or_default' or (x[1] == 'or_insert' and len(x[3]) > 1 and _is_zero(x[3][1]))
            return ent[0][3][1], ent[0][3][0], zero
    return None


def old_value_of(body, ex):
    """`m.get(&k).copied().unwrap_or(0.0)` / `.unwrap_or_default()` / `*m.get(&k).unwrap_or(&0.0)`: (key expr, map expr) or None"""
    x = ex
    for _ in range(6):
        if x[0] == 'call' and x[1] in ('unwrap_or', 'unwrap_or_default', 'copied', 'cloned') and x[3]:
            if x[1] == 'unwrap_or' and not (len(x[3]) > 1 and _is_zero(x[3][1])): return None
            x = x[3][0]; continue
        if x[0] == 'proj' and not any('v1::' in a for a, f in x[2]): x = x[1]; continue
        break
    if x[0] == 'call' and x[1] == 'get' and re.search(MAP_KV + r'::get', x[2]) and len(x[3]) > 1:
        return x[3][1], x[3][0]
    return None


def simp(e):
    """arithmetic identities that do not change the value: 0.0 + x, x + 0.0, 1.0 * x, x * 1.0
    (`let sum = 0.0 + value` for a fresh entry is `value`)"""
    e = T.arith(e)
    if e[0] == 'bin' and e[1] in ('Add', 'Mul'):
        a, b = simp(e[2]), simp(e[3])
        unit = ('0f64', '-0f64') if e[1] == 'Add' else ('1f64',)
        if a[0] == 'const' and a[1] in unit: return b
        if b[0] == 'const' and b[1] in unit: return a
        return ('bin', e[1], a, b)
    return e


def facs_of(body, e):
    return tuple(sorted(label(body, f) for f in T.flatten(simp(e), 'Mul')))


def effects_in(ctx, body, region, self_adt, where=None, maps=None, keys=None):
    """effects performed in `region`:
        ('acc', target, op, factors)   target (op)= product of factors; target is `self.<field>`, `acc:_N`
                                       (a local accumulator) or `entry[<key label>]` (the map entry of a key)
        ('set', 'entry[..]', factors)  the map entry of a key is overwritten
        ('report', key)                key inserted into an id set
        ('remove', field)              element removed from self.<field>
        ('inc', 'index')               usize counter advanced by one
        ('push', _N, key)              key pushed to the local Vec _N
       `maps` collects the root locals of the maps that receive 'acc' / 'set' effects, `keys` the root
       collection (if the key is one) of the key of each map effect."""
    eff = _Eff(where)
    maps = maps if maps is not None else set()
    keys = keys if keys is not None else {}
    for bi, st in body.stmts():
        if bi not in region: continue
        eff.cur = bi
        rv = st['rv']; d = st['dst']
        if rv['k'] == 'bin' and rv.get('ty') == 'f64' and rv['op'] in ('Add', 'Sub', 'Mul', 'Div'):
            a, b = rv['ops']
            def same(o): return o['k'] in ('copy', 'move') and o['pl'] == d
            if same(a) or same(b):
                other = b if same(a) else a
                facs = facs_of(body, T.expr(body, other))
                e_ = ('acc', target_label(ctx, body, d, maps=maps), rv['op'], facs)
                eff.add(e_)
                if e_[1].startswith('entry'):
                    ent = entry_of(body, T.expr(body, {'k': 'copy', 'pl': d}, depth=30))
                    if ent is not None: keys.setdefault(e_, set()).add(_key_root(body, ent[0]))
                elif e_[1].startswith('occupied['):
                    for y in T.expr_walk(T.expr(body, {'k': 'copy', 'pl': d}, depth=30)):
                        if y[0] == 'call' and y[1] == 'entry': keys.setdefault(e_, set()).add(_key_root(body, y[3][1])); break
        # accumulator updated through temporaries:  acc = tmp  where  tmp = acc (op) x   (e.g. a spliced `fold`)
        if rv['k'] == 'use' and not d['p'] and body.locals[d['l']] == 'f64' and rv['ops'][0]['k'] in ('copy', 'move') and len(body.defs_of(d['l'])) > 1:
            ex = T.arith(T.expr(body, rv['ops'][0]))
            if ex[0] == 'bin' and ex[1] in ('Add', 'Mul'):
                me = ('local', d['l'])
                sides = [T.strip_wrappers(ex[2]), T.strip_wrappers(ex[3])]
                if me in sides:
                    other = sides[1] if sides[0] == me else sides[0]
                    facs = facs_of(body, other)
                    eff.add(('acc', 'acc:_%d' % d['l'], ex[1], facs))
        if rv['k'] == 'bin' and rv['op'].startswith('Add') and rv.get('ty') == 'usize' and any(o['k'] == 'const' and o['v'] == '1_usize' for o in rv['ops']):
            eff.add(('inc', 'index'))
    for c in body.calls:
        if c.bb not in region: continue
        eff.cur = c.bb
        m = T.ASSIGN_CALL.match(c.name)
        if m:
            facs = facs_of(body, T.expr(body, c.args[1]))
            eff.add(('acc', target_label(ctx, body, None, c.args[0], maps=maps), m.group(1), facs))
        elif c.item == 'insert' and SET_INSERT.search(c.name):
            eff.add(('report', label(body, T.expr(body, c.args[1]))))
        elif c.item == 'insert' and re.search(MAP_KV + r'::insert$', c.name) and len(c.args) == 3:
            # m.insert(k, m.get(&k).copied().unwrap_or(0.0) + v)  ==  *m.entry(k).or_insert(0.0) += v
            key = label(body, T.expr(body, c.args[1])); mroot = root_of(body, c.args[0])
            maps.add(mroot)
            val = T.arith(T.expr(body, c.args[2]))
            done = False
            if val[0] == 'bin' and val[1] == 'Add':
                for old, new in ((val[2], val[3]), (val[3], val[2])):
                    ov = old_value_of(body, T.strip_wrappers(old))
                    if ov is not None and label(body, ov[0]) == key:
                        facs = facs_of(body, new)
                        e_ = ('acc', 'entry[%s]' % key, 'Add', facs); eff.add(e_); done = True
                        keys.setdefault(e_, set()).add(coll_root(body, c.args[1])); break
            if not done and absent_only(body, c, key, mroot):
                e_ = ('acc-vacant', 'entry[%s]' % key, 'Add', facs_of(body, val)); eff.add(e_); done = True
                keys.setdefault(e_, set()).add(coll_root(body, c.args[1]))
            if not done:
                facs = facs_of(body, val)
                eff.add(('set', 'entry[%s]' % key, facs))
        elif c.item == 'insert' and re.search(r'VacantEntry::<.*>::insert$', c.name):
            # match m.entry(k) { Vacant(e) => { e.insert(v); } .. }  : the vacant half of  *entry.or_insert(0.0) += v
            ent = [y for y in T.expr_walk(T.expr(body, c.args[0])) if y[0] == 'call' and y[1] == 'entry']
            if ent:
                facs = facs_of(body, T.expr(body, c.args[1]))
                e_ = ('acc-vacant', 'entry[%s]' % label(body, ent[0][3][1]), 'Add', facs); eff.add(e_)
                maps.add(_key_root(body, ent[0][3][0])); keys.setdefault(e_, set()).add(_key_root(body, ent[0][3][1]))
        elif c.item in ('swap_remove', 'remove') and re.search(r'Vec::<', c.name):
            fs = [f for a, f in T.access_path(body, c.args[0])[0] if a.endswith(self_adt)]
            eff.add(('remove', fs[-1] if fs else '?'))
        elif c.item == 'retain_drop':
            eff.add(('retain-drop', root_of(body, c.args[0]), label(body, T.expr(body, c.args[1]))))
        elif c.item == 'push' and VEC_PUSH.search(c.name):
            eff.add(('push', root_of(body, c.args[0]), label(body, T.expr(body, c.args[1]))))
    return eff


def target_label(ctx, body, dst_place, operand=None, maps=None):
    """what an accumulating assignment writes to"""
    op = {'k': 'copy', 'pl': dst_place} if dst_place is not None else operand
    if dst_place is not None and dst_place['p'] == []: return 'acc:_%d' % dst_place['l']
    fs, root, calls = T.access_path(body, op, transparent=T.TRANSPARENT_NOCLONE)
    named = [f for a, f in fs if 'v1::' in a]
    if named and root == 1: return 'self.' + named[-1]          # self.constant, also through `let Self { constant, .. } = self`
    ex = T.expr(body, op, depth=30)
    if ex[0] in ('local', 'place') and not (ex[0] == 'place' and ex[2]): return 'acc:_%d' % ex[1]
    ent = entry_of(body, ex)
    if ent is not None:
        if maps is not None: maps.add(_key_root(body, ent[1]))
        return ('entry[%s]' if ent[2] else 'entry-nonzero-default[%s]') % label(body, ent[0])
    # `*occupied.get_mut() += v` : the occupied half of the entry idiom
    # `if let Some(x) = m.get_mut(&k) { *x += v } else { m.insert(k, v) }` : the present half
    for x in T.expr_walk(ex):
        if x[0] == 'call' and x[1] == 'get_mut' and re.search(MAP_KV + r'::get_mut', x[2]) and len(x[3]) > 1:
            if maps is not None: maps.add(_key_root(body, x[3][0]))
            return 'occupied[%s]' % label(body, x[3][1])
    for x in T.expr_walk(ex):
        if x[0] == 'call' and x[1] in ('get_mut', 'into_mut') and 'OccupiedEntry' in x[2]:
            e2 = [y for y in T.expr_walk(x) if y[0] == 'call' and y[1] == 'entry']
            if e2:
                if maps is not None: maps.add(_key_root(body, e2[0][3][0]))
                return 'occupied[%s]' % label(body, e2[0][3][1])
    if root is not None and root > body.argc and not named and dst_place is None: return 'acc:_%d' % root
    return T.expr_str(ex, 3)


def _key_root(body, e):
    """the local collection a key expression is (a clone of)"""
    mb = T._mut_borrowed(body)
    for _ in range(8):
        if e[0] == 'place' and e[2]:
            e2 = through_payload(body, e)
            if e2 is not e: e = e2; continue
        if e[0] == 'call' and e[3] and T.TRANSPARENT.search(T.strip_generics_tail(e[2])):
            # a clone that is itself a variable being filled / filtered (`let mut ids = term.ids.clone(); ids.retain(..)`) is the collection
            if len(e) > 4:
                d = next((c.dst['l'] for c in body.calls if c.bb == e[4] and not c.dst['p']), None)
                if d is not None and d in mb: return d
            e = e[3][0]; continue
        break
    if e[0] == 'call' and e[1] == 'new' and len(e) > 4:
        for c in body.calls:
            if c.bb == e[4] and not c.dst['p']: return c.dst['l']
    if e[0] == 'local' or (e[0] == 'place' and not e[2]): return e[1]
    return holder_of(body, e)


def absent_only(body, ins, key, mroot):
    """the insert `ins` happens only where the map is known not to contain the key:
         None arm of m.get_mut(&k) / m.get(&k), false side of m.contains_key(&k)"""
    for c in body.calls:
        if c is ins or len(c.args) < 2 or c.item not in ('get_mut', 'get', 'contains_key') or not re.search(MAP_KV + r'::(get_mut|get|contains_key)', c.name): continue
        if root_of(body, c.args[0]) != mroot or label(body, T.expr(body, c.args[1])) != key: continue
        absent = 0
        r_abs = walk(body, [c.target], stop={c.bb}, env0={(c.dst['l'], ()): absent})[0] if c.target >= 0 else set()
        r_pre = walk(body, [c.target], stop={c.bb}, env0={(c.dst['l'], ()): 1})[0] if c.target >= 0 else set()
        if ins.bb in r_abs and ins.bb not in r_pre and body.dominates(c.bb, ins.bb): return True
    return False


def combine_halves(eff, where, keys=None):
    """('acc-vacant', K, Add, f) on the vacant arm + ('acc', occupied[K], Add, f) on the occupied arm of one
    `match m.entry(k)`  ==  ('acc', entry[K], Add, f)"""
    for e in list(eff):
        if e[0] == 'acc-vacant':
            k = e[1][len('entry['):-1]
            occ = ('acc', 'occupied[%s]' % k, e[2], e[3])
            if occ in eff:
                eff.discard(e); eff.discard(occ)
                new = ('acc', e[1], e[2], e[3]); eff.add(new)
                where[new] = where.get(e, set()) | where.get(occ, set())
                if keys is not None: keys[new] = keys.get(e, set()) | keys.get(occ, set())
    return eff


def table(ctx, body, probes, header, self_adt, rename=None, maps=None):
    """case -> set of effects that every path of the case performs on its way back to the loop header
    (an effect only some paths perform is listed as ('sometimes', ..))"""
    start = probes[-1].target
    tab = {}
    for asg in itertools.product((1, 0), repeat=len(probes)):
        reg = case_region(body, start, list(asg), probes, {header})
        where = {}
        eff0 = effects_in(ctx, body, reg, self_adt, where, maps)
        combine_halves(eff0, where)
        eff = set()
        for e in eff0:
            always = case_region(body, start, list(asg), probes, {header}, avoid=where.get(e, set())) is not None
            eff.add(e if always else ('sometimes',) + e)
        if rename: eff = {tuple(rename.get(x, x) if isinstance(x, str) else x for x in e) for e in eff}
        tab[''.join('S' if a else 'N' for a in asg)] = eff
        ctx.counters['cfg_paths'] += 1
    return tab


def check_table(ctx, rule, body, tab, want, site=None):
    for case, w in want.items():
        got = tab.get(case, set())
        missing = sorted(map(str, w - got)); extra = sorted(map(str, got - w))
        ctx.check(not missing and not extra, '%s/%s' % (rule, case), 'T-BRANCHFX', fn_of(body),
                  'case %s (S = variable fixed, N = free): missing effects %s, unexpected effects %s' % (case, missing, extra), site or body.site(), effects=sorted(map(str, got)))
        ctx.sample(dict(rule=rule, case=case, effects=sorted(map(str, got))))


def loop_with(body, call):
    cands = [(h, bl) for h, bl in body.loops().items() if call.bb in bl]
    return min(cands, key=lambda x: len(x[1])) if cands else (None, set())


# ------------------------------------------------------------------------------- index loops
def index_loop_bound(ctx, body, blocks, header, vec_fields, self_adt):
    """How does the loop over `blocks` decide to stop?  Equivalent idioms of "until the index reaches the
    end of self.<vec>":
        while i < v.len()            -> 'precise'
        while i != v.len()           -> 'precise'
        while let Some(x) = v.get(i) -> 'precise'
        while i < n  with n a local whose value derives from v.len() (cached / decremented bound) -> 'derived'
    returns ('precise' | 'derived' | None, bb of the switch that ends the loop)"""
    best = None
    for bi, st in body.stmts():
        if bi not in blocks: continue
        rv = st['rv']
        if rv['k'] == 'bin' and rv['op'] in ('Lt', 'Ne') and rv.get('ty') == 'usize':
            # the comparison must decide the loop exit
            sw = _exits_loop(body, st['dst']['l'], bi, blocks)
            if sw is None: continue
            for o in rv['ops']:
                if _len_of_self_vec(body, T.expr(body, o), vec_fields, self_adt): return 'precise', sw
                if o['k'] in ('copy', 'move'):
                    s = ctx.S.backslice(body, [o['pl']['l']])
                    if any(c.item == 'len' and _self_vec(body, c.args[0], vec_fields, self_adt) for c in s.call_objs): best = ('derived', sw)
    for c in body.calls:
        if c.bb in blocks and c.item == 'get' and re.search(r'slice::<impl \[.*\]>::get|Vec::<.*>::get', c.name) and _self_vec(body, c.args[0], vec_fields, self_adt):
            for sb, m, els in T.option_arms(body, c.dst['l']):
                none = m.get(0, els)
                if none not in blocks: return 'precise', sb
    return best if best else (None, None)


def _exits_loop(body, cond_local, bb, blocks):
    for g in T.guards_from_local(body, cond_local, bb):
        for t in (g.true_bb, g.false_bb):
            if t is not None and t not in blocks: return g.switch_bb
    return None


def _self_vec(body, operand, vec_fields, self_adt):
    fs, root, calls = T.access_path(body, operand)
    return root == 1 and any(a.endswith(self_adt) and f in vec_fields for a, f in fs)


def _len_of_self_vec(body, ex, vec_fields, self_adt):
    """len(..) whose receiver reaches self.<vec> through destructured references"""
    for x in T.expr_calls(ex):
        if x[1] == 'len' and len(x) > 4:
            for c in body.calls:
                if c.bb == x[4] and _self_vec(body, c.args[0], vec_fields, self_adt): return True
    return False


ELEMENT_ACCESS = ('index', 'index_mut', 'get', 'get_mut', 'swap_remove', 'remove')      # v[i] | v.get(i) | v.swap_remove(i) | v.remove(i)


def element_indices(body, blocks, elem_re):
    """index expressions used to read / remove elements of the vectors matching elem_re inside `blocks`"""
    idx = set()
    for c in body.calls:
        if c.bb in blocks and c.item in ELEMENT_ACCESS and re.search(elem_re, c.name) and len(c.args) > 1:
            idx.add(T.expr_str(T.expr(body, c.args[1])))
    return idx


# ------------------------------------------------------------------------------- small helpers
def deep_fields(body, e):
    return set(T.expr_fields(e))


def only_on_some_side(ctx, body, bb, adt, field):
    """block bb is reachable only through the Some arm of a test (`if let` / `match` / spliced `map_or`) on self.<field>"""
    for sb, some, none in option_field_tests(body, adt, field):
        if bb in body.reach([some]) and bb not in body.reach([none]): return True
    return False


def unmark(ctx):
    """report the functions under their own names (lnorm bodies are called `<fn>~`)"""
    for v in ctx.violations:
        if '~' in v['fn']:
            v['fn'] = v['fn'].replace('~', ''); v['key'] = '%s|%s|%s' % (v['rule'], v['fn'], v['detail'])
    for i in ctx.instances:
        if '~' in i.get('fn', ''): i['fn'] = i['fn'].replace('~', '')


def acc_defs(body, local):
    """definitions of an f64 accumulator: (inits [(expr, bb)], updates [(op, other expr, bb)]);
    `acc = acc op x`, `acc op= x` through `&mut acc`, and `tmp = acc op x; acc = tmp` are updates"""
    init = []; ups = []
    for k, bi, d in body.defs_of(local):
        if k != 'stmt' or d['dst']['p']:
            if k == 'call': init.append((('call', '?', d['r'] or d['f'], []), bi))
            continue
        rv = d['rv']
        ex = T.arith(T._rv_expr(body, rv))
        if ex[0] == 'bin' and ex[1] in ('Add', 'Sub', 'Mul', 'Div'):
            me = [('local', local), ('place', local, [])]
            a, b2 = T.strip_wrappers(ex[2]), T.strip_wrappers(ex[3])
            if a in me: ups.append((ex[1], b2, bi)); continue
            if b2 in me: ups.append((ex[1], a, bi)); continue
        init.append((ex, bi))
    refs = set()
    for bi, st in body.stmts():
        rv = st['rv']
        if rv['k'] == 'ref' and rv.get('mut') and rv['pl'] == {'l': local, 'p': []} and not st['dst']['p']: refs.add(st['dst']['l'])
    for c in body.calls:
        m = T.ASSIGN_CALL.match(c.name)
        if m and c.arg_local(0) in refs: ups.append((m.group(1), T.expr(body, c.args[1]), c.bb))
    return init, ups


def small_tests(body, blocks):
    """`|x| is negligible` tests: (bb, stmt, small_is_true):  x.abs() <= EPSILON | x.abs() < EPSILON (true = negligible),
    x.abs() > EPSILON | x.abs() >= EPSILON (false = negligible), also with the constant on the left"""
    out = []
    for bi, st in float_cmp_sites(body, ('Le', 'Lt', 'Gt', 'Ge')):
        ops = st['rv']['ops']
        if bi not in blocks or not any(o['k'] == 'const' and 'EPSILON' in o['v'] for o in ops): continue
        const_left = ops[0]['k'] == 'const'
        le = st['rv']['op'] in ('Le', 'Lt')
        out.append((bi, st, le != const_left))
    return out


class PolyInfo:
    """What happens to the ids of one monomial and to its value (Polynomial::partial_evaluate).
    Ids may be handled where they are probed, or pushed to a local vector that is processed later:
        for id in ids { if fixed { value *= v; used.insert(id) } else { rest.push(id) } }
     == let (fixed, rest) = ids.partition(is_fixed); value = fixed.fold(c, |a, id| a * state[id]); used.extend(fixed)
    so the effects on a vector (loops over all its elements, `extend` of the id set with it, use as the key of
    the result map) count as effects on every id pushed to it."""

    def __init__(self, ctx, b, outer):
        self.ctx = ctx; self.b = b; self.outer = outer
        blocks = set(outer[4])
        self.vec_fx = {}           # vec local -> set of effects applied to each of its elements
        self.kept_vecs = set()
        self.value_local = None; self.value_init = None
        self.key_vec = None; self.adds_value = False; self.acc_blocks = set(); self.map_local = None; self.retained = set(); self.retain_label = None
        loops = [lo for lo in T.for_loops(b) if set(lo[4]) < blocks]
        items = loop_items(b)
        # ---- all effects of the monomial loop's body
        where = {}; maps = set(); keys = {}
        alleff = effects_in(ctx, b, blocks, 'v1::Polynomial', where, maps, keys)
        combine_halves(alleff, where, keys)
        vecs = {e[1] for e in alleff if e[0] == 'push'}
        # vectors filtered in place: `ids.retain(|id| ..)` — they start with all ids of the monomial and lose the dropped ones
        self.retained = {e[1] for e in alleff if e[0] == 'retain-drop'}
        vecs |= self.retained
        # the value accumulator: the local that is multiplied by the fixed values
        cand = {e[1] for e in alleff if e[0] == 'acc' and e[2] == 'Mul' and e[1].startswith('acc:_') and any(f.startswith('val[') for f in e[3])}
        if len(cand) == 1:
            self.value_local = int(next(iter(cand))[5:])
            init, ups = acc_defs(b, self.value_local)
            labs = {outer_field(x) for x, bi in init}
            self.value_init = next(iter(labs)) if len(labs) == 1 else None
        vlab = '_%d' % self.value_local if self.value_local is not None else None
        # ---- per vector: what is done to all of its elements
        for v in vecs:
            fx = set()
            for lo in loops:
                if items.get(lo[0].dst['l']) != v: continue
                reg, _ = walk(b, [lo[2]], stop={lo[1]})
                w2 = {}
                for e in effects_in(ctx, b, reg, 'v1::Polynomial', w2):
                    always = not walk(b, [lo[2]], stop={lo[1]}, avoid=w2.get(e, set()))[1]
                    restr = sorted({x.item for x in ctx.S.slice_operand(b, lo[0].args[0]).call_objs if x.item in RESTRICTING and 'Iterator' in (x.trait or '')})
                    fx.add(e if always and not restr else ('sometimes',) + e)
            for c in b.calls:
                if c.bb in blocks and c.item == 'extend' and re.search(r'BTreeSet<u64> as std::iter::Extend<u64>>::extend', c.name) and coll_root(b, c.args[1]) == v:
                    for lab in pushed_labels(b, v): fx.add(('report', lab))
            # the vector must hold exactly the pushed ids when it is used: no other mutation of it
            tampered = [c for c in b.calls if c.bb in blocks and not (c.item == 'push' and VEC_PUSH.search(c.name)) and T.MUT_CALL.search(c.name)
                        and c.args and root_of(b, c.args[0]) == v and '&mut' in b.locals[c.arg_local(0) or 0]]
            if tampered: fx = {e if e[0] == 'sometimes' else ('sometimes',) + e for e in fx}
            self.vec_fx[v] = fx
        # ---- the result map: entry keyed by a vector, value += monomial value
        inner_blocks = set().union(*[set(lo[4]) for lo in loops]) if loops else set()
        for e in alleff:
            if e[0] == 'acc' and e[1].startswith('entry[') and e[2] == 'Add' and not (where.get(e, set()) & inner_blocks):
                kr = {k for k in keys.get(e, set()) if k is not None}
                if len(kr) == 1 and next(iter(kr)) in vecs:
                    self.key_vec = next(iter(kr)); self.acc_blocks |= where.get(e, set())
                    if e[3] == (vlab,): self.adds_value = True
        if self.key_vec is not None:
            self.kept_vecs.add(self.key_vec)
            for lab in pushed_labels(b, self.key_vec): self.vec_fx[self.key_vec].add(('keep-id', lab))
            if self.key_vec in self.retained:
                # the key is the monomial's own id vector after `retain`: it must have started as exactly the ids of the monomial
                lab = label(b, T.expr(b, {'k': 'copy', 'pl': {'l': self.key_vec, 'p': []}}))
                self.retain_label = lab if not pushed_labels(b, self.key_vec) else None
        self.map_local = next(iter(maps)) if len(maps) == 1 else None
        # the entry may be dropped again instead of written when the new sum vanishes:
        #   if sum.abs() <= EPSILON { m.remove(&k) } else { m.insert(k, sum) }   ==   *m.entry(k).or_default() += v; if it.abs() <= EPSILON { m.remove(&k) }
        # a fresh entry that would be (almost) zero need not be created:
        #   Entry::Vacant(e) => if !(v.abs() <= EPSILON) { e.insert(v); }     (nothing to remove: the key is absent)
        for c in b.calls:
            if c.bb in self.acc_blocks and c.item == 'insert' and re.search(r'VacantEntry::<.*>::insert$', c.name) and len(c.args) == 2:
                val = simp(T.expr(b, c.args[1]))
                for bi, st, small in small_tests(b, blocks):
                    oth = [o for o in st['rv']['ops'] if o['k'] != 'const']
                    ax = T.strip_wrappers(T.expr(b, oth[0])) if oth else None
                    if ax is not None and ax[0] == 'call' and ax[1] == 'abs' and ax[3] and simp(ax[3][0]) == val:
                        for g in T.guards_from_local(b, st['dst']['l'], bi):
                            sb = g.true_bb if small else g.false_bb
                            if sb is not None and c.bb not in b.reach([sb], {outer[1]}) and b.dominates(g.switch_bb, c.bb): self.acc_blocks.add(sb)
        for c in b.calls:
            if c.bb in self.acc_blocks and c.item == 'insert' and len(c.args) == 3:
                val = T.expr(b, c.args[2])
                for bi, st, small in small_tests(b, blocks):
                    oth = [o for o in st['rv']['ops'] if o['k'] != 'const']
                    ax = T.strip_wrappers(T.expr(b, oth[0])) if oth else None
                    if ax is not None and ax[0] == 'call' and ax[1] == 'abs' and ax[3] and T.strip_wrappers(ax[3][0]) == T.strip_wrappers(val):
                        for g in T.guards_from_local(b, st['dst']['l'], bi):
                            sb = g.true_bb if small else g.false_bb
                            rm = [x for x in b.calls if x.item == 'remove' and 'BTreeMap' in x.name and sb is not None and x.bb in b.reach([sb], {outer[1]})
                                  and coll_root(b, x.args[1]) == self.key_vec and root_of(b, x.args[0]) == self.map_local]
                            if rm and c.bb not in b.reach([sb], {outer[1]}): self.acc_blocks.add(sb)

    def resolve(self, eff):
        out = set()
        # in-place model: an id stays in the key vector unless this case drops it
        if self.key_vec in self.retained and self.retain_label is not None:
            drops = [e for e in eff if (e[1:] if e[0] == 'sometimes' else e)[:2] == ('retain-drop', self.key_vec)]
            if not drops: out.add(('keep-id', self.retain_label))
            elif all(e[0] == 'sometimes' for e in drops): out.add(('sometimes', 'keep-id', self.retain_label))
        for e in eff:
            some = e[0] == 'sometimes'
            x = e[1:] if some else e
            if x[0] == 'retain-drop' and x[1] == self.key_vec and self.retain_label is not None and x[2] == self.retain_label: continue
            if x[0] == 'push':
                for d in self.vec_fx.get(x[1], {('push', x[1], x[2])}):
                    out.add(d if not some or d[0] == 'sometimes' else ('sometimes',) + d)
            else:
                out.add(e)
        ren = {'acc:_%d' % self.value_local: 'value'} if self.value_local is not None else {}
        return {tuple(ren.get(y, y) if isinstance(y, str) else y for y in e) for e in out}


# ------------------------------------------------------------------------------- precise provenance
PROV_PAIR = ('chain', 'zip')                                            # both arguments contribute elements
PROV_CLOSURE = ('map', 'filter', 'filter_map', 'flat_map', 'inspect', 'take_while', 'skip_while', 'map_while')
PROV_THROUGH = ('collect', 'from_iter', 'to_vec', 'to_owned', 'rev', 'enumerate', 'peekable', 'by_ref', 'take', 'skip', 'step_by', 'fuse', 'cloned', 'copied', 'values', 'values_mut', 'keys', 'into_values', 'into_keys', 'drain')


def prov(ctx, body, operand, _depth=0, _seen=None):
    """Where does a value come from?  Set of (adt, field) crossed on the unique-definition chain back to a
    parameter, plus ('param', n) for the parameter reached.  Unlike a slice this is not polluted by `&mut self`
    aliasing (a helper that received the whole `&mut self` and was inlined): it follows references, moves,
    transparent adaptors, `iter()`-like calls, the `next()` of a loop back to the iterated collection, both
    arguments of chain / zip and the value returned by the closure of map / filter_map."""
    out = set()
    _seen = _seen if _seen is not None else set()
    if _depth > 10 or operand['k'] not in ('copy', 'move'): return out
    fs, root, calls = T.access_path(body, operand, depth=24, transparent=PROV_TRANSPARENT)
    out |= set(fs)
    if root is None: return out
    if 1 <= root <= body.argc:
        out.add(('param', root)); return out
    if root in _seen: return out
    _seen.add(root)
    defs = [d for d in body.defs_of(root) if not (d[0] == 'stmt' and d[2]['dst']['p'])]
    if len(defs) != 1:
        # a value built on several paths (`match` result, spliced combinator): may come from any of them
        for k, bi, d in defs[:6]:
            if k == 'stmt' and d['rv']['k'] in ('agg', 'use'):
                for o in d['rv']['ops']: out |= prov(ctx, body, o, _depth + 1, _seen)
            elif k == 'stmt' and d['rv']['k'] == 'ref':
                out |= prov(ctx, body, {'k': 'copy', 'pl': d['rv']['pl']}, _depth + 1, _seen)
        return out
    k, bi, d = defs[0]
    if k == 'stmt':
        rv = d['rv']
        if rv['k'] == 'agg':
            for o in rv['ops']: out |= prov(ctx, body, o, _depth + 1, _seen)
        return out
    item = (d.get('ri') or {}).get('item'); args = d['args']
    if not args: return out
    if item in PROV_PAIR and len(args) == 2:
        out |= prov(ctx, body, args[0], _depth + 1, _seen) | prov(ctx, body, args[1], _depth + 1, _seen)
    elif item in PROV_CLOSURE and len(args) == 2 and ((d.get('ri') or {}).get('trait') or '').endswith('Iterator'):
        out |= prov(ctx, body, args[0], _depth + 1, _seen)
        a = args[1]
        if a['k'] in ('copy', 'move'):
            for k2, b2, d2 in body.defs_of(a['pl']['l']):
                if k2 == 'stmt' and d2['rv']['k'] == 'agg' and d2['rv']['adt'].startswith('closure:'):
                    cb = ctx.F.bodies.get(d2['rv']['adt'][8:])
                    if cb is not None and item in ('map', 'filter_map', 'flat_map', 'map_while'):
                        out |= {x for x in prov(ctx, cb, {'k': 'copy', 'pl': {'l': 0, 'p': []}}, _depth + 1) if x[0] != 'param'}
    elif item in ('next',) + PROV_THROUGH:
        out |= prov(ctx, body, args[0], _depth + 1, _seen)
    return out


PROV_TRANSPARENT = re.compile(T.TRANSPARENT.pattern[:-len(r')(::<.*>)?$')] + r'|into_iter|iter|iter_mut|as_slice|as_mut_slice|unwrap_or_default|take)(::<.*>)?$')


def from_self_field(ctx, body, operand, adt, field, self_param=1):
    p = prov(ctx, body, operand)
    return any(f == field and (a == adt or a.endswith('::' + adt)) for a, f in p if a != 'param') and ('param', self_param) in p


# ------------------------------------------------------------------------------- path-sensitive guards
def guard_requires(body, g, polarity):
    """T.GuardInfo.requires with path-sensitive sides: the Ok-exits are reachable only from the `polarity` side of
    the test, the other side reaches an Err-exit and no Ok-exit — also when that side first builds an Err value
    that a later `?` turns into the return (guard moved into a helper that returns Result<()>)."""
    oks = body.strict_ok_exits(); errs = body.err_exits()
    good, bad = (g.true_bb, g.false_bb) if polarity else (g.false_bb, g.true_bb)
    if good is None or bad is None: return False
    rg = walk(body, [good])[0]; rb = walk(body, [bad])[0]
    return bool(rg & oks) and not (rb & oks) and bool(rb & errs)


def result_reaches_return(ctx, body, call):
    """the value produced by `call` (a Result) is what the function returns on the paths through the call:
         return f(..)            (tail call / match arm that is the callee's Result)
         Ok(f(..)?)  /  let s = f(..)?; .. Ok(s)   (the Continue payload is in the slice of every Ok value built after it)
       On the other arms the function may return something else (e.g. Ok(empty set))."""
    if call.dst['l'] == 0 and not call.dst['p']: return True
    res = errflow(body, call.dst['l'])
    if any(k == 'bad' for k, h in res): return False
    if all(h.endswith('returned') for k, h in res): return True
    after = walk(body, [call.target])[0] if call.target >= 0 else set()
    rets = [(e, k, st) for e, k, st in body.ret_assignments() if k in ('ok', 'val') and e in after]
    reach = flows_from(body, call.dst['l'])
    return bool(rets) and all(st['rv']['ops'][0]['k'] in ('copy', 'move') and st['rv']['ops'][0]['pl']['l'] in reach for e, k, st in rets)


# merging one id set into another:  a.append(&mut b) | a.extend(b) | a.insert(x)
MERGE_CALL = re.compile(r'(BTreeSet|HashSet|Vec)::<.*>::(append|insert|push|extend)$|as std::iter::Extend<.*>>::extend')


def flows_from(body, local):
    """locals that (may) hold the value of `local` or a collection it was merged into — value flow only (moves,
    references, `?`, payload projections, Some/Ok/tuple wrappers, transparent calls, set-merging calls); unlike a slice
    it does not follow `&mut` aliasing of unrelated call arguments"""
    seen = {local}; work = [local]
    while work:
        l = work.pop()
        for kind, bi, x in body.uses.get(l, ()):
            nxt = None
            if kind == 'stmt':
                rv = x['rv']
                if rv['k'] in ('use', 'ref', 'agg', 'cast'): nxt = x['dst']['l']
            elif kind == 'call':
                nm = x.name
                if T.TRY_BRANCH.search(nm) or T.TRANSPARENT.search(T.strip_generics_tail(nm)) or SAME_VARIANT.search(nm) or ERR_ADAPTORS.search(nm) \
                        or ITER_TRANSPARENT.search(T.strip_generics_tail(nm)) or (x.item in ('next', 'flatten', 'chain', 'zip') + PROV_THROUGH and (x.trait or '').endswith('Iterator')) \
                        or re.search(r'::(unwrap_or_default|unwrap_or|unwrap_or_else|transpose)(::<.*>)?$', nm):
                    if x.arg_local(0) == l: nxt = x.dst['l']
                elif MERGE_CALL.search(nm) and len(x.args) >= 2 and x.arg_local(0) != l:
                    nxt = root_of(body, x.args[0])
            if nxt is not None and nxt not in seen: seen.add(nxt); work.append(nxt)
    return seen


def before_every_ok(body, blocks):
    """every feasible path from the entry to an Ok-exit passes one of `blocks` (path-sensitive dominance: a path
    that leaves an inlined helper with Err and would have to take the Continue arm of the caller's `?` is not a path)"""
    blocks = set(blocks)
    if 0 in blocks: return True
    return not (walk(body, [0], avoid=blocks)[0] & body.strict_ok_exits())


def must_pass_or_none(ctx, rule, body, call, adt, field, what):
    """every feasible path entry -> Ok-exit passes `call` or the None arm of a test on the Option field adt.field
    (path-sensitive version of common.must_pass_or_none)"""
    via = {call.bb} | {none for sb, some, none in option_field_tests(body, adt, field)}
    for bi in body.live:
        t = body.blocks[bi]['term']
        if t['k'] == 'switch' and t['d']['k'] != 'const':
            for k, b2, st in body.defs_of(t['d']['pl']['l']):
                if k == 'stmt' and st['rv']['k'] == 'discr' and any(f == field and (a == adt or a.endswith('::' + adt)) for a, f in prov(ctx, body, {'k': 'copy', 'pl': st['rv']['pl']}) if a != 'param'):
                    via.add({v: tg for v, tg in t['ts']}.get(0, t['else']))
    ctx.counters['cfg_paths'] += 1
    ok = before_every_ok(body, via)
    ctx.check(ok, rule, 'T-MUSTCALL', body.name, 'an Ok-exit is reachable without %s' % what, body.site(call.bb))
    return ok


# ------------------------------------------------------------------------------- how a returned struct is filled
def struct_field_sources(ctx, body, adt, operand=None):
    """How is each field of the `adt` value that the function returns set?  Equivalent ways of building it:
         Adt { f: x, .. }                                  (aggregate; `..base` update syntax is an aggregate too)
         let mut r = Adt::default() / base; r.f = x; ..    (field assignment on every path to the Ok-exits)
         let mut r = Adt { .. }; r.f = x;                  (aggregate, then overwritten)
       returns ({field: [operands]}, anchor bb) or (None, why)"""
    # the returned local: operand of Ok(..) / `_0 = r`
    roots = set()
    if operand is None:
        for e, k, st in body.ret_assignments():
            if k == 'ok' and st['rv'].get('ops'):
                o = st['rv']['ops'][0]
                if o['k'] in ('copy', 'move'): roots.add(o['pl']['l'])
            elif k in ('val', 'callval'): roots.add(0)          # the value itself is returned (`fn from(..) -> Self`)
    else:
        roots.add(operand['pl']['l'])
    fields = ctx.F.adt_fields(adt) or []
    out = {}; anchor = None; seen = set()
    work = list(roots)
    while work:
        l = work.pop()
        if l in seen: continue
        seen.add(l)
        for k, bi, d in body.defs_of(l):
            if k == 'call':
                anchor = anchor if anchor is not None else bi
                continue
            rv = d['rv']; dst = d['dst']
            if dst['p']:
                fs = [p['f'] for p in dst['p'] if isinstance(p, dict) and 'f' in p]
                if len(fs) >= 1 and fs[0] in fields and rv.get('ops'):
                    out.setdefault(fs[0], []).append((rv['ops'][0], bi, len(fs) == 1 and not [p for p in dst['p'] if p == '*']))
                continue
            if rv['k'] == 'agg' and (rv['adt'] == adt or rv['adt'].endswith('::' + adt)):
                anchor = bi
                for f, o in zip(rv['fields'], rv['ops']): out.setdefault(f, []).append((o, bi, True))
            elif rv['k'] == 'use' and rv['ops'][0]['k'] in ('copy', 'move') and not rv['ops'][0]['pl']['p']:
                work.append(rv['ops'][0]['pl']['l'])
    if anchor is None: return None, 'no value of type %s is built' % adt
    res = {}
    for f in fields:
        srcs = out.get(f, [])
        assigned = [(o, bi) for o, bi, whole in srcs if whole and bi != anchor]
        if assigned:
            # assignments after the aggregate / default: they decide the field if one of them lies on every path to the Ok-exits
            if before_every_ok(body, {bi for o, bi in assigned}): res[f] = [o for o, bi in assigned]
            else: res[f] = [o for o, bi, whole in srcs]
        else:
            res[f] = [o for o, bi, whole in srcs if bi == anchor]
    return res, anchor


OPTION_VIEW = re.compile(r'::(as_ref|as_mut|as_deref|as_deref_mut|deref|deref_mut|borrow|borrow_mut|clone|cloned|copied)(::<.*>)?$')


def option_tests_of_field(body, adt, field):
    """discriminant tests of the Option stored in self.<field> itself (or an `as_mut()` / `as_ref()` view of it; not of
    a Result / ControlFlow derived from it by `context(..)` / `?`): (switch_bb, some_target, none_target)"""
    out = []
    for bi in sorted(body.live):
        t = body.blocks[bi]['term']
        if t['k'] == 'switch' and t['d']['k'] != 'const':
            for k2, b2, d in body.defs_of(t['d']['pl']['l']):
                if k2 == 'stmt' and d['rv']['k'] == 'discr':
                    fs, root, calls = T.access_path(body, {'k': 'copy', 'pl': d['rv']['pl']}, transparent=OPTION_VIEW)
                    if fs and fs[-1][1] == field and (fs[-1][0] == adt or fs[-1][0].endswith('::' + adt)) and not [c for c in calls if not OPTION_VIEW.search(T.strip_generics_tail(c))]:
                        m = {v: tg for v, tg in t['ts']}
                        out.append((bi, m.get(1, t['else']), m.get(0, t['else'])))
    return out


def none_is_error(ctx, body, adt, field):
    """When the Option field self.<field> is None the function does not return Ok.  Evidence, all of it must agree:
         `match self.f { None => <no Ok-exit> }` / `let Some(x) = self.f else { bail }` (None arm of a test of the field)
         self.f.as_mut().context(..)? / .ok_or(..)? / .ok_or_else(..)?                  (error flow of the derived Option)
       returns (n_evidence, [problems])"""
    oks = body.strict_ok_exits(); n = 0; bad = []
    tested = set()
    for sb, some, none in option_tests_of_field(body, adt, field):
        n += 1; tested.add(sb)
        if walk(body, [none])[0] & oks: bad.append('the None arm of the test at bb%d reaches an Ok-exit' % sb)
    for c in body.calls:
        if c.item in ('as_mut', 'as_ref', 'as_deref', 'as_deref_mut', 'take', 'clone') and 'Option' in c.name and c.args:
            fs = T.access_path(body, c.args[0])[0]
            if fs[-1:] == [(adt, field)] or (fs and fs[-1][1] == field and fs[-1][0].endswith(adt)):
                # the derived Option is either tested (counted above through its access path) or consumed by adaptors
                if any(kind == 'stmt' and x['rv']['k'] == 'discr' for kind, bi, x in body.uses.get(c.dst['l'], ())): continue
                n += 1
                bad += [h for k, h in errflow(body, c.dst['l']) if k == 'bad']
    return n, bad


# ------------------------------------------------------------------------------- loops that must visit everything
def early_exits(body, blocks, normal_switch, header):
    """edges that leave the loop `blocks` from inside its body (i.e. not the regular end-of-iteration test at
    `normal_switch`) and from which an Ok-exit is reachable: `break`, `return Ok(..)`.  Leaving through `?` / bail!
    is fine (no Ok-exit follows, path-sensitively)."""
    out = []
    oks = body.strict_ok_exits()
    for u in sorted(blocks):
        if u == normal_switch or (isinstance(normal_switch, (set, frozenset)) and u in normal_switch): continue
        for v in body.succ(u):
            if v in blocks or body.blocks[v]['cleanup']: continue
            if walk(body, [v], stop={header})[0] & oks or (v in oks): out.append((u, v))
    return out


def for_loop_switch(body, lo):
    """the end-of-iteration test(s) of a `for` loop; several when nested iterators share one natural loop (flat_map)"""
    out = set()
    for o in T.for_loops(body):
        if o[1] == lo[1] and set(o[4]) == set(lo[4]):
            arms = T.option_arms(body, o[0].dst['l'])
            if arms: out.add(arms[0][0])
    return out


def no_early_exit(ctx, rule, body, lo):
    """T-LOOPMUST: the `for` loop ends only when its iterator is exhausted (or with an error)"""
    ex = early_exits(body, set(lo[4]), for_loop_switch(body, lo), lo[1])
    ctx.check(not ex, rule, 'T-LOOPMUST', body.name, 'the loop can be left early (bb%s) on the way to an Ok-exit: remaining elements are skipped' % ', bb'.join(str(u) for u, v in ex), body.site(lo[0].bb))
    return not ex


def rooted_in_self_field(ctx, body, e, adt, field):
    """expression `e` reads self.<field> (directly, or through a parameter of an inlined helper that was given
    `self.<field>.as_ref()`)"""
    if (adt, field) in T.expr_fields(e): return True
    for x in T.expr_walk(e):
        if x[0] in ('place', 'local') and x[1] > body.argc:
            if from_self_field(ctx, body, {'k': 'copy', 'pl': {'l': x[1], 'p': []}}, adt, field): return True
    return False


def no_bypass(ctx, rule, body, header, what, empty_of=None):
    """no success exit bypasses the loop at `header` — except, when `empty_of` = (adt, field) is given, through the true side
    of an emptiness test of self.<field> (`if self.terms.is_empty() { return Ok(..) }` skips nothing)"""
    via = {header}
    if empty_of is not None:
        for c in body.calls:
            if c.item == 'is_empty' and c.args and _self_vec(body, c.args[0], (empty_of[1],), empty_of[0]):
                for g in T.guards_from_call(body, c):
                    if g.true_bb is not None: via.add(g.true_bb)
    ok = before_every_ok(body, via)
    ctx.check(ok, rule, 'T-MUSTCALL', body.name, 'an Ok-exit is reachable without running %s' % what, body.site())
    return ok


# ------------------------------------------------------------------------------- complete copies of a map
COPY_CALLS = re.compile(r'::(clone|to_owned|into|from|collect|from_iter|into_iter|iter|borrow|as_ref|deref|unwrap_or_default)(::<.*>)?$')
ENTRY_ADTS = ('v1::State', 'v1::Parameters')


def same_entries(ctx, body, operand, param, depth=0):
    """The value of `operand` carries *all* entries of parameter `param` (a State / Parameters message or its `entries`
    map) and nothing else: moves, clone(), From / Into between State and Parameters (crate conversions are checked to
    carry `entries` themselves), `State { entries: x.entries }`, `x.entries.into_iter().collect()`, or a map filled by an
    unconditional insert in an unrestricted loop over such a value.  Any filter / retain / remove in between fails."""
    if depth > 6 or operand['k'] not in ('copy', 'move'): return False
    return _same_entries_expr(ctx, body, T.expr(body, operand, depth=24), param, depth)


def _mutated_besides_fill(body, local, fills=()):
    for c in body.calls:
        if c in fills or not c.args or not T.MUT_CALL.search(c.name): continue
        a = c.args[0]
        if a['k'] in ('copy', 'move') and '&mut' in body.locals[a['pl']['l']] and root_of(body, a) == local: return True
    return False


def _same_entries_expr(ctx, body, e, param, depth):
    for _ in range(30):
        if e[0] == 'proj':
            if all(T.WRAPPER_OWNER.search(a) or (a.endswith(ENTRY_ADTS) and f == 'entries') for a, f in e[2]): e = e[1]; continue
            return False
        if e[0] == 'place':
            if not all(a.endswith(ENTRY_ADTS) and f == 'entries' for a, f in e[2]): return False
            if e[1] == param: return not _mutated_besides_fill(body, param)      # also through locals it was moved to
            return False if e[1] <= body.argc else _same_entries_local(ctx, body, e[1], param, depth)
        if e[0] == 'local':
            return _same_entries_local(ctx, body, e[1], param, depth)
        if e[0] == 'agg':
            if e[1].endswith(ENTRY_ADTS) and len(e[2]) == 1: e = e[2][0]; continue
            if e[1].endswith('Option::Some') and len(e[2]) == 1: e = e[2][0]; continue
            return False
        if e[0] == 'call':
            nm = T.strip_generics_tail(e[2])
            call = next((c for c in body.calls if len(e) > 4 and c.bb == e[4]), None)
            if call is not None and not call.dst['p'] and _mutated_besides_fill(body, call.dst['l']): return False
            cb = ctx.F.bodies.get(call.path) if call is not None else None
            if cb is None and call is not None and e[1] == 'into' and len(call.gargs) >= 2:
                cb = ctx.F.one(call.gargs[1], 'from', 'From', targs=[call.gargs[0]])
            if cb is not None and cb.kind == 'fn' and e[1] in ('from', 'into') and len(e[3]) == 1:
                # crate conversion: its result's `entries` must be its argument's entries
                cb = lnorm(ctx, cb)
                src, anchor = struct_field_sources(ctx, cb, next((a for a in ENTRY_ADTS if (cb.locals[0] or '').endswith(a)), 'v1::State'))
                if src is None or not src.get('entries') or not all(same_entries(ctx, cb, o, 1, depth + 1) for o in src['entries']): return False
                e = e[3][0]; continue
            if COPY_CALLS.search(nm) and e[3] and (cb is None): e = e[3][0]; continue
            if e[1] == 'new' and call is not None: return _same_entries_local(ctx, body, call.dst['l'], param, depth)
            return False
        return False
    return False


def _same_entries_local(ctx, body, local, param, depth):
    """a local map: defined once by a complete copy and not shrunk, or filled from a complete copy by a loop"""
    defs = [d for d in body.defs_of(local) if not (d[0] == 'stmt' and d[2]['dst']['p'])]
    if len(defs) != 1: return False
    k, bi, d = defs[0]
    ins = [c for c in body.calls if c.item == 'insert' and re.search(r'(HashMap|BTreeMap)::<.*>::insert$', c.name) and c.args and root_of(body, c.args[0]) == local]
    if _mutated_besides_fill(body, local, ins): return False
    if k == 'call' and (d.get('ri') or {}).get('item') == 'new':
        if not ins: return False
        for c in ins:
            los = [lo for lo in T.for_loops(body) if c.bb in lo[4]]
            if not los: return False
            lo = min(los, key=lambda l: len(l[4]))
            restr = [x for x in ctx.S.slice_operand(body, lo[0].args[0]).call_objs if x.item in RESTRICTING and 'Iterator' in (x.trait or '')]
            if restr or not T.must_pass(body, lo[2], {lo[1]}, {c.bb}) or early_exits(body, set(lo[4]), for_loop_switch(body, lo), lo[1]): return False
            src = coll_source(body, lo[0].args[0])
            if src is None or not _same_entries_expr(ctx, body, src, param, depth + 1): return False
            if not all(lo[0].dst['l'] in ctx.S.slice_operand(body, a).locals for a in c.args[1:]): return False
        return True
    if ins: return False
    if k == 'stmt':
        return _same_entries_expr(ctx, body, T._rv_expr(body, d['rv']), param, depth + 1)
    return False


def coll_source(body, operand):
    """expression of the collection an iterator operand runs over (iter / into_iter / &mut stripped)"""
    e = T.expr(body, operand, depth=24)
    for _ in range(12):
        if e[0] == 'call' and e[3] and ITER_TRANSPARENT.search(T.strip_generics_tail(e[2])): e = e[3][0]; continue
        break
    return e


# ------------------------------------------------------------------------------- every iteration is probed
def loop_body_starts(body, blocks, sw):
    """first blocks of the body of an index loop: successors of the end-of-loop test that stay in the loop"""
    return [v for v in body.succ(sw) if v in blocks] if sw is not None else []


def every_iteration_passes(ctx, rule, body, blocks, header, sw, via, what):
    """T-LOOPMUST for index loops: no path from the start of the loop body back to the header avoids `via`
    (an element that is skipped before it is looked at stays in place untouched)"""
    starts = loop_body_starts(body, set(blocks), sw)
    ok = bool(starts) and all(T.must_pass(body, s_, {header}, set(via)) for s_ in starts)
    ctx.check(ok, rule, 'T-LOOPMUST', body.name, 'a path through the loop body skips %s' % what, body.site())
    return ok


# ------------------------------------------------------------------------------- complete copies of a list field
SHRINK = ('retain', 'retain_mut', 'remove', 'swap_remove', 'clear', 'pop', 'truncate', 'drain', 'split_off', 'dedup', 'dedup_by', 'dedup_by_key', 'extract_if', 'take')


def complete_field_copy(ctx, body, operand, adt, field, self_param=1, _depth=0):
    """Is the value of `operand` the complete collection self.<field>?
         'yes'      moved out of self.<field> (which is never shrunk), or a local Vec filled by an unconditional push of every
                    element of an unrestricted, never-left loop over self.<field>
         'no'       rebuilt with a conditional push / from a restricted loop, or self.<field> is shrunk (retain, remove, ..)
         'unknown'  anything else"""
    if operand['k'] not in ('copy', 'move'): return 'unknown'
    e = T.strip_wrappers(T.expr(body, operand, depth=24))
    def shrunk(pred):
        for c in body.calls:
            if c.item in SHRINK and c.args and T.MUT_CALL.search(c.name) and pred(c.args[0]): return True
        return False
    if e[0] == 'place' and e[1] == self_param and [x for x in e[2] if 'v1::' in x[0]] == [(x[0], field) for x in e[2] if 'v1::' in x[0]][:1] and e[2] and e[2][-1][1] == field and e[2][-1][0].endswith(adt):
        def on_field(a):
            fs, root, calls = T.access_path(body, a)
            return root == self_param and [x for x in fs if 'v1::' in x[0]][-1:] == [(e[2][-1][0], field)]
        # `self.f = rebuilt;` : the field holds what was assigned last; judge that value (the old content was consumed on purpose)
        assigned = []
        for bi, st in body.stmts():
            d = st['dst']
            if d['p'] and st['rv'].get('ops') and st['rv']['k'] == 'use':
                fs, root, calls = T.access_path(body, {'k': 'copy', 'pl': d}, transparent=T.TRANSPARENT_NOCLONE)
                if root == self_param and [x for x in fs if 'v1::' in x[0]] == [(e[2][-1][0], field)]: assigned.append(st['rv']['ops'][0])
        if assigned and _depth < 2:
            vs = {complete_field_copy(ctx, body, o, adt, field, self_param, _depth + 1) for o in assigned}
            return 'no' if 'no' in vs else ('yes' if vs == {'yes'} else 'unknown')
        return 'no' if shrunk(on_field) else 'yes'
    v = None
    if e[0] == 'call' and len(e) > 4 and e[1] in ('new', 'with_capacity', 'default'):
        v = next((c.dst['l'] for c in body.calls if c.bb == e[4] and not c.dst['p']), None)
    if v is None: return 'unknown'
    pushes = [c for c in body.calls if c.item in ('push', 'insert', 'push_back') and len(c.args) >= 2 and root_of(body, c.args[0]) == v]
    if not pushes: return 'unknown'
    if shrunk(lambda a: root_of(body, a) == v): return 'no'
    for c in pushes:
        los = [lo for lo in T.for_loops(body) if c.bb in lo[4]]
        if not los: return 'unknown'
        lo = min(los, key=lambda l: len(l[4]))
        if not from_self_field(ctx, body, lo[0].args[0], adt, field, self_param): return 'unknown'
        if lo[0].dst['l'] not in ctx.S.slice_operand(body, c.args[-1]).locals: return 'unknown'
        restr = [x for x in ctx.S.slice_operand(body, lo[0].args[0]).call_objs if x.item in RESTRICTING and 'Iterator' in (x.trait or '')]
        if restr or not T.must_pass(body, lo[2], {lo[1]}, {c.bb}) or early_exits(body, set(lo[4]), for_loop_switch(body, lo), lo[1]): return 'no'
    return 'yes'


class Swapped:
    """a guard seen from the negated test (`x != K` as `x == K`)"""
    def __init__(self, g):
        self.g = g; self.switch_bb = g.switch_bb; self.true_bb = g.false_bb; self.false_bb = g.true_bb
    def describe(self): return 'negated ' + self.g.describe()


def shrinking_calls(ctx, body, adt, field, self_param=1):
    """calls that can remove elements from the collection self.<field> (retain / remove / clear / drain / take ..), also
    through references and helpers that were inlined"""
    out = []
    for c in body.calls:
        if ((c.item in SHRINK and T.MUT_CALL.search(c.name)) or c.item == 'retain_drop') and c.args and from_self_field(ctx, body, c.args[0], adt, field, self_param):
            fs = [x for x in prov(ctx, body, c.args[0]) if x[0] != 'param' and 'v1::' in x[0]]
            if all(x[1] == field and x[0].endswith(adt) for x in fs): out.append(c)
    return out
