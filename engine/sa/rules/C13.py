"""C13 — integer slack conversions (DESIGN §5 C13).

Written against the normal form (VIEW = 'norm'): `find(|c| ..)`, `try_for_each(|id| ..)`, extracted
helpers all look like the explicit loop they stand for.  "X missing => error" clauses are path
conditions ("assume the lookup yields None: no Ok-exit is reachable"), decided with the variant-tracking
reachability of C11 (reach_v), so `?`, `let .. else`, `match`, `ensure!` and a `?` on the result of an
inlined helper / rewritten `try_for_each` are all the same thing.
"""
from .common import *
# helpers shared by the two modules of this owner (candidates for templates.py / common.py, see C13-NOTES.txt)
from .C11 import reach_v, must_pass_v, EnumProbes, single_def, const_operand, plain_source, undecided_weak, negligible_tests, value_web

VIEW = 'norm'
# the conversions build `f + b*s` / `f + s` with the Add kernels of the polynomial algebra; a kernel that loses
# a term changes the feasible set of the new equality (seed C13-9), so those kernels are re-decided here
RELIES_ON = {'C02': ['C02.kernel'],
             # the interval of f is built from get_bounds(): an unset bound of a Binary variable is [0, 1] (decided by C05's table rules)
             'C05': ['C05.bound/get_bounds', 'C05.bound/sibling']}
INST = 'v1::Instance'; DV = 'v1::DecisionVariable'; CON = 'v1::Constraint'
ALLOWED_KINDS = {'Binary', 'Integer'}


def none_is_error(body, start_bb, local, variant='Option::None'):
    """path clause: when `local` holds `variant` at `start_bb`, no Ok-exit is reachable and an Err-exit is"""
    r = reach_v(body, [start_bb], {local: variant})
    return not (r & body.strict_ok_exits()) and bool(r & body.err_exits())


class SideGuard:
    """switch of a bool with the side on which the clause's condition holds as `true_bb`"""
    def __init__(self, body, sb, neg):
        self.switch_bb = sb
        self.true_bb, self.false_bb = T.switch_sides(body, sb, neg)


def lookup_loops(ctx, body):
    """LOOKUP idioms for `the constraint with id == constraint_id` (normal form):
       self.constraints.iter[_mut]().find(|c| c.id == constraint_id)          loop + `item.id == arg` test, hit => Some(item)
       .position(|c| c.id == constraint_id) / for c in &mut self.constraints { if c.id == constraint_id {..} }
    Returns [(loop, bb of the id test, hit target, miss target)]."""
    out = []
    for lo in T.for_loops(body):
        nextc, header, some_bb, none_bb, blocks = lo
        if not ctx.S.slice_operand(body, nextc.args[0]).has_field(INST, 'constraints'): continue
        tests = []
        for bi, st in body.stmts():
            rv = st['rv']
            if bi in blocks and rv['k'] == 'bin' and rv['op'] in ('Eq', 'Ne') and not st['dst']['p']:
                ss = [ctx.S.slice_operand(body, o) for o in rv['ops']]
                for i in (0, 1):
                    if ss[i].has_field(CON, 'id') and nextc in ss[i].call_objs and 2 in ss[1 - i].params and nextc not in ss[1 - i].call_objs:
                        tests.append((bi, st['dst']['l'], rv['op'] == 'Eq'))
        for c in body.calls:
            if c.bb in blocks and c.item in ('eq', 'ne') and 'PartialEq' in (c.trait or '') and len(c.args) == 2 and not c.dst['p']:
                ss = [ctx.S.slice_operand(body, o) for o in c.args]
                for i in (0, 1):
                    if ss[i].has_field(CON, 'id') and nextc in ss[i].call_objs and 2 in ss[1 - i].params and nextc not in ss[1 - i].call_objs:
                        tests.append((c.bb, c.dst['l'], c.item == 'eq'))
        for bi, l, eq in tests:
            for sb, neg in T.bool_flow(body, l):
                t, f = T.switch_sides(body, sb, neg)
                hit, miss = (t, f) if eq else (f, t)
                if hit is not None and miss is not None: out.append((lo, bi, hit, miss))
    return out


def slack_rules(ctx, name, convert):
    R = 'C13.%s' % ('convert' if convert else 'add')
    body = ctx.method(R + '/anchor', INST, name)
    if body is None: return {}
    feats = {}
    # NEW-VARIABLE idioms: decision_variables.push(dv) | .insert(i, dv) | .extend([dv]) (normal form: push)
    pushes = [c for c in body.calls if c.item in ('push', 'insert') and re.search(r'Vec::<v1::DecisionVariable>::(push|insert)', c.name)
              and ctx.S.slice_operand(body, c.args[0]).has_field(INST, 'decision_variables')]
    ctx.check(len(pushes) >= 1, R + '/vars/one-push', 'T-CARRY', body.name, 'no new decision variable is added (decision_variables.push)', body.site())
    if not pushes: return feats
    push_bbs = {c.bb for c in pushes}

    def before_push(bb):
        """every (feasible) path from the entry to a push passes bb — dominance, or, when the test sits in an inlined helper whose
        Err / Ok(None) / Ok(Some) results merge again, the same thing decided with the variant-tracking reachability"""
        return all(body.dominates(bb, pb) for pb in push_bbs) or must_pass_v(body, 0, push_bbs, {bb})
    # the instance is also modified on the always-satisfied path (relax_constraint moves the constraint): the rejection guards
    # (lookup, inequality, function present, every variable known and integral) must precede EVERY modification
    mut_bbs = push_bbs | {c.bb for c in body.calls if (c.item == 'relax_constraint' and c.path.endswith('relax_constraint'))
                          or (c.item in ('remove', 'swap_remove') and re.search(r'Vec::<v1::Constraint>::', c.name))}
    def before_mutation(bb): return all(body.dominates(bb, mb) for mb in mut_bbs)
    oks = body.strict_ok_exits()
    # ---- g1: constraint lookup by id; not found => error
    lk = lookup_loops(ctx, body)
    calls_lk = [c for c in body.calls if c.item in ('find', 'position') and 'Iterator' in (c.trait or '') and ctx.S.slice_operand(body, c.args[0]).has_field(INST, 'constraints')]   # not desugared (fn item as predicate)
    ctx.check(bool(lk) or any(ctx.S.slice_operand(body, c.args[1]).has_field(CON, 'id') and 2 in ctx.S.slice_operand(body, c.args[1]).params for c in calls_lk),
              R + '/guards/lookup/by-id', 'T-CARRY', body.name, 'no lookup that compares the constraint id with the argument', body.site())
    if lk:
        lo, tbb, hit, miss = lk[0]; nextc, header, some_bb, none_bb, blocks = lo
        ctx.counters['cfg_paths'] += 2
        # exhausted without a hit => no Ok-exit;  a miss goes on searching (it cannot leave the loop towards an Ok-exit)
        r_none = reach_v(body, [none_bb])
        ctx.check(not (r_none & oks) and bool(r_none & body.err_exits()), R + '/guards/lookup/none-is-error', 'T-ERRFLOW', body.name, 'an unknown constraint id can reach an Ok-exit', body.site(nextc.bb))
        r_miss = reach_v(body, [miss], stop={header})
        ctx.check(not (r_miss & oks) and not (mut_bbs & r_miss), R + '/guards/lookup/miss-continues', 'T-LOOPMUST', body.name, 'a constraint with another id is accepted', body.site(tbb))
        ctx.check(before_mutation(header), R + '/guards/lookup/dominates', 'T-GUARD', body.name, 'lookup does not dominate the mutation', body.site(nextc.bb))
        feats['lookup'] = True
    else:
        for c in calls_lk[:1]:
            errflow_calls(ctx, R + '/guards/lookup/none-is-error', body, [c], 'constraint lookup')
            ctx.check(before_mutation(c.bb), R + '/guards/lookup/dominates', 'T-GUARD', body.name, 'lookup does not dominate the mutation', body.site(c.bb))
            feats['lookup'] = True
    # ---- g2: must be an inequality  (ENUM-TEST idioms of C11.EnumProbes: == / != / matches! / match / if let / raw i32 compare,
    #          whatever consumes the outcome).  Stated per kind: assume constraint.equality() is V wherever the body inspects it
    P = EnumProbes(ctx, body, 'v1::Equality', src_need=lambda s: s.has_field(CON, 'equality'))
    if not P:
        ctx.bad(R + '/guards/is-inequality', 'T-GUARD', body.name, 'no test `constraint.equality() == LessThanOrEqualToZero` found', body.site())
    else:
        leak = []; mut = []
        for V in P.variants:
            ctx.counters['cfg_paths'] += 1
            r = P.reach(V, [0])
            if V == 'LessThanOrEqualToZero':
                if not (r & oks): leak.append('an inequality never succeeds')
            else:
                if (r & oks) or not (r & body.err_exits()): leak.append('%s can reach an Ok-exit' % V)
                if r & mut_bbs: mut.append(V)
        ctx.check(not leak, R + '/guards/is-inequality', 'T-GUARD', body.name, 'test `constraint.equality() == LessThanOrEqualToZero` does not guard the Ok-exits: %s' % '; '.join(leak), P.site())
        ctx.check(not mut, R + '/guards/is-inequality/dominates', 'T-GUARD', body.name, 'the mutation is reachable for %s' % mut, P.site())
        if not leak and not mut: feats['is-inequality'] = True
    # ---- g3: function present.  OPTION-TEST idioms on constraint.function:
    #        .as_ref()/.as_mut()/.clone() + (with_context|context|ok_or..)? | let Some(f) = &c.function else { bail } | match c.function { None => return Err }
    fcands = []        # (bb, how, None-is-error?)
    for c in body.calls:
        if c.item in ('as_ref', 'as_mut', 'clone', 'as_deref') and 'Option' in c.name and 'v1::Function' in c.name and (CON, 'function') in T.access_path(body, c.args[0])[0] and not c.dst['p'] and c.target >= 0:
            ctx.counters['cfg_paths'] += 1
            fcands.append((c.bb, c.item, none_is_error(body, c.target, c.dst['l'])))
    for sb, some_t, none_t in option_field_tests(body, CON, 'function'):
        ctx.counters['cfg_paths'] += 1
        r = reach_v(body, [none_t])
        fcands.append((sb, 'match', not (r & oks) and bool(r & body.err_exits())))
    fc = [x for x in fcands if before_mutation(x[0])]
    ctx.check(bool(fc), R + '/guards/function/access', 'T-ERRFLOW', body.name, 'no test of constraint.function before the mutation', body.site())
    if fc:
        good = [x for x in fc if x[2]]
        ctx.check(bool(good), R + '/guards/function/none-is-error', 'T-ERRFLOW', body.name, 'a constraint without function can reach an Ok-exit', body.site(fc[0][0]))
        ctx.check(bool(good) and before_mutation(good[0][0]), R + '/guards/function/dominates', 'T-GUARD', body.name, 'function test does not dominate the mutation', body.site(fc[0][0]))
        if good: feats['function'] = True
    # ---- g4: every used variable is known and binary / integer
    #      (a loop over the used ids of the constraint function that dominates the mutation; the one that looks the kinds up)
    # the kind of the item: kinds.get(&id) on the table of get_kinds(), looked up by the loop item (HashMap / BTreeMap)
    def kind_gets(lo): return [c for c in body.calls if c.bb in lo[4] and c.item == 'get' and re.search(r'(Hash|BTree)Map', c.name) and 'Kind' in c.name and lo[0] in ctx.S.slice_operand(body, c.args[1]).call_objs]
    loops = [lo for lo in T.for_loops(body) if ctx.S.slice_operand(body, lo[0].args[0]).has_call(r'impl v1::Function>::used_decision_variable_ids') and before_mutation(lo[1])]
    ctx.check(bool(loops), R + '/guards/kinds/loop', 'T-LOOPMUST', body.name, 'no loop over the used variable ids before the mutation', body.site())
    loops = sorted(loops, key=lambda lo: not kind_gets(lo))[:1]
    for lo in loops:
        nextc, header, some_bb, none_bb, blocks = lo
        ctx.check(before_mutation(header), R + '/guards/kinds/dominates', 'T-GUARD', body.name, 'kind loop does not dominate the mutation', body.site(nextc.bb))
        gets = kind_gets(lo)
        ctx.check(len(gets) >= 1, R + '/guards/kinds/get', 'T-ERRFLOW', body.name, 'no kinds.get(id) of the loop item in the loop', body.site(nextc.bb))
        if not gets: continue
        c = gets[0]
        m = ctx.S.slice_operand(body, c.args[0])
        ctx.check(m.has_call(r'impl v1::Instance>::get_kinds'), R + '/guards/kinds/from-get_kinds', 'T-CARRY', body.name, 'kind table does not come from get_kinds()', body.site(c.bb))
        ctx.counters['cfg_paths'] += 2
        ctx.check(c.target >= 0 and not c.dst['p'] and none_is_error(body, c.target, c.dst['l']), R + '/guards/kinds/unknown-is-error', 'T-ERRFLOW', body.name,
                  'a variable without kind can reach an Ok-exit', body.site(c.bb))
        ctx.check(must_pass_v(body, some_bb, {header}, {g.bb for g in gets}), R + '/guards/kinds/every-id', 'T-LOOPMUST', body.name, 'a path through the loop body skips `kinds.get(id)`', body.site(nextc.bb))
        si = ctx.S.slice_operand(body, nextc.args[0])
        restr = sorted({x.item for x in si.call_objs if x.item in RESTRICTING and 'Iterator' in (x.trait or '')})
        ctx.check(not restr, R + '/guards/kinds/every-id/all-items', 'T-LOOPMUST', body.name, 'the loop iterator is restricted by %s' % restr, body.site(nextc.bb))
        # outcome per kind: assume the kind is V (every test on this kind — matches!, match, == chains — decided accordingly):
        # does the item pass (back to the loop header) or end in an Err-exit?
        kadt = ctx.F.adt('v1::decision_variable::Kind')
        KP = EnumProbes(ctx, body, 'v1::decision_variable::Kind', src_need=lambda s: c in s.call_objs, blocks=blocks)
        ctx.check(bool(KP) and kadt is not None, R + '/guards/kinds/match', 'T-TABLE', body.name, 'no test of the variable kind in the loop', body.site(nextc.bb))
        if KP and kadt is not None:
            errs = body.err_exits(); table = {}
            for v in kadt['variants']:
                hits = set(); ctx.counters['cfg_paths'] += 1
                r = KP.reach(v['name'], [c.target], {c.dst['l']: 'Option::Some'}, stop={header}, hits=hits)
                cont = header in hits; err = bool(r & errs)
                table[v['name']] = 'continue' if cont and not err and not (r & oks) else ('error' if err and not cont and not (r & oks) else 'mixed')
            want = {v['name']: ('continue' if v['name'] in ALLOWED_KINDS else 'error') for v in kadt['variants']}
            ctx.check(table == want, R + '/guards/kinds/table', 'T-TABLE', body.name, 'kind table is %s, expected %s' % (table, want), KP.site())
            feats['kinds'] = tuple(sorted(table.items()))
    # ---- g5 / g6: interval tests
    infeasible = None; always = None
    for bi, st in float_cmp_sites(body, ('Gt', 'Ge', 'Lt', 'Le')):
        ops = st['rv']['ops']
        if not any(o['k'] == 'const' and T.f64_const(o['v']) == 0.0 for o in ops): continue
        other = [o for o in ops if o['k'] != 'const']
        if not other: continue
        fs, root, calls = T.access_path(body, other[0])
        s = ctx.S.slice_operand(body, other[0])
        if not s.has_call(r'impl v1::Function>::evaluate_bound'): continue
        op = st['rv']['op']; const_right = ops[1]['k'] == 'const'
        if not const_right: op = {'Gt': 'Lt', 'Lt': 'Gt', 'Ge': 'Le', 'Le': 'Ge'}[op]
        # the compared value is bound.lower() / bound.upper(), directly or through `let lo = bound.lower();`
        srcs = plain_source(body, other[0]) or set()
        direct = [c for c in body.calls if c.dst['l'] in srcs and not c.dst['p'] and c.path.endswith('Bound::' + c.item)]
        which = direct[0].item if direct else None
        # INTERVAL-TEST idioms:  lower > 0  ==  0 < lower  ==  !(lower <= 0);   upper <= 0  ==  0 >= upper  ==  !(upper > 0)
        for sb, neg in T.bool_flow(body, st['dst']['l']):
            if which == 'lower' and op in ('Gt', 'Le'): infeasible = (bi, SideGuard(body, sb, neg != (op == 'Le')))
            if which == 'upper' and op in ('Le', 'Gt'): always = (bi, SideGuard(body, sb, neg != (op == 'Gt')))
    ctx.check(infeasible is not None, R + '/guards/infeasible/test', 'T-GUARD', body.name, 'no `bound.lower() > 0` test', body.site())
    if infeasible:
        bi, g = infeasible
        r = reach_v(body, [g.true_bb])
        ctx.check(not (r & body.strict_ok_exits()) and bool(r & body.err_exits()) and not (push_bbs & r), R + '/guards/infeasible/is-error', 'T-GUARD', body.name,
                  '`lower > 0` does not lead to an error before any mutation', body.site(bi))
        agg = [b2 for b2, st2 in body.stmts() if b2 in r and st2['rv']['k'] == 'agg' and 'InfeasibleDetected::InequalityConstraintBound' in st2['rv']['adt']]
        ctx.check(bool(agg), R + '/guards/infeasible/typed', 'T-GUARD', body.name, 'the error is not InfeasibleDetected::InequalityConstraintBound', body.site(bi))
        ctx.check(before_push(bi), R + '/guards/infeasible/dominates', 'T-GUARD', body.name, 'test does not dominate the mutation', body.site(bi))
        feats['infeasible'] = True
    ctx.check(always is not None, R + '/guards/always/test', 'T-GUARD', body.name, 'no `bound.upper() <= 0` test', body.site())
    if always:
        bi, g = always
        r = reach_v(body, [g.true_bb])
        relax = [c for c in body.calls if c.bb in r and c.item == 'relax_constraint' and c.path.endswith('relax_constraint')]
        # RELAX idiom, written out: `let c = self.constraints.remove(i); self.removed_constraints.push(RemovedConstraint { constraint: Some(c), .. })`
        # with i looked up by the given id — the removed constraint itself is what is pushed
        inl = []
        for rm in body.calls:
            if rm.bb in r and rm.item in ('remove', 'swap_remove') and re.search(r'Vec::<v1::Constraint>::', rm.name) and ctx.S.slice_operand(body, rm.args[0]).has_field(INST, 'constraints'):
                for pu in body.calls:
                    if pu.bb in r and pu.item == 'push' and re.search(r'Vec::<v1::RemovedConstraint>::push', pu.name) and ctx.S.slice_operand(body, pu.args[0]).has_field(INST, 'removed_constraints') \
                            and rm in ctx.S.slice_operand(body, pu.args[1]).call_objs and 2 in ctx.S.slice_operand(body, rm.args[1]).params:
                        inl.append((rm, pu))
        ctx.check((bool(relax) or bool(inl)) and not (push_bbs & r) and bool(r & body.strict_ok_exits()), R + '/guards/always/relax-and-return', 'T-BRANCHFX', body.name,
                  '`upper <= 0` does not relax the constraint and return without a new variable', body.site(bi))
        if inl and not relax:
            rm, pu = inl[0]
            ctx.ok(R + '/guards/always/relax-same-id', 'T-CARRY', body.site(rm.bb), how='constraints.remove(index looked up by the given id) pushed to removed_constraints')
            # the lookup failing must be an error, and nothing is removed before it is known to succeed
            rr = reach_v(body, [g.true_bb], stop={rm.bb})
            ctx.check(not (rr & body.strict_ok_exits()), R + '/guards/always/relax-error', 'T-ERRFLOW', body.name, 'the always-satisfied path can return Ok without moving the constraint', body.site(rm.bb))
        for c in relax:
            ctx.check(c.args[1]['k'] in ('copy', 'move') and T.access_path(body, c.args[1])[1] == 2, R + '/guards/always/relax-same-id', 'T-CARRY', body.name, 'relax_constraint is not called with the given id', body.site(c.bb))
            errflow_calls(ctx, R + '/guards/always/relax-error', body, [c], 'relax_constraint result')
        fr = reach_v(body, [g.false_bb])
        ctx.check(bool(push_bbs & fr), R + '/guards/always/else-continues', 'T-BRANCHFX', body.name, 'the other side never reaches the slack construction', body.site(bi))
        ctx.check(before_push(bi), R + '/guards/always/dominates', 'T-GUARD', body.name, 'test does not dominate the mutation', body.site(bi))
        # no write to the constraint function on the relaxed path
        fw = [b2 for b2, st2 in body.stmts() if b2 in r and st2['dst']['p'] and (CON, 'function') in [(a, f) for a, f in fields_of_place(st2['dst'])]]
        ctx.check(not fw, R + '/guards/always/unchanged', 'T-BRANCHFX', body.name, 'constraint function is rewritten on the always-satisfied path', body.site(bi))
        feats['always'] = True
    if not convert: unrounded_rule(ctx, R, body)
    if convert:
        # the multiplier a is the content factor of the constraint's OWN function: the receiver of content_factor() is constraint.function
        # through clone / borrow only — not f minus its constant, not a sum, not a scaled or otherwise rewritten copy
        cfs = [c for c in body.calls if c.item == 'content_factor' and c.path.endswith('impl v1::Function>::content_factor') and c.args]
        rew = []
        for c in cfs:
            e = xexpr(body, c.args[0])
            arith = [x for x in T.expr_walk(e) if x[0] == 'call' and re.search(r'std::ops::(Sub|Add|Mul|Div|Neg|SubAssign|AddAssign|MulAssign)\b', x[2])]
            if arith or not ctx.S.slice_operand(body, c.args[0]).has_field(CON, 'function'): rew.append((c, arith[0][1] if arith else 'not constraint.function'))
        ctx.check(bool(cfs) and not rew, R + '/coef/a-of-f', 'T-CARRY', body.name,
                  'content_factor() is taken of a rewritten function (%s), not of the constraint function itself' % (rew[0][1] if rew else 'no content_factor call'),
                  body.site(rew[0][0].bb) if rew else body.site())
        hull_rule(ctx, R, body)
        # g7: slack range limit
        lim = None
        for bi, st in float_cmp_sites(body, ('Gt', 'Ge', 'Lt', 'Le')):
            ops = st['rv']['ops']
            ss = [ctx.S.slice_operand(body, o) for o in ops]
            # one side is the caller's limit, the other a quantity of the evaluated interval (which one: guards/range-limit/of-slack-bound)
            li = [i for i, s in enumerate(ss) if 3 in s.params and not s.has_call(r'bound::Bound::')]
            if len(li) == 1 and ss[1 - li[0]].has_call(r'impl v1::Function>::evaluate_bound'):
                wi = 1 - li[0]
                op = st['rv']['op']
                if wi == 1: op = {'Gt': 'Lt', 'Lt': 'Gt', 'Ge': 'Le', 'Le': 'Ge'}[op]
                for g in T.guards_from_local(body, st['dst']['l'], bi):
                    if op in ('Gt', 'Ge') and g.requires(False) and before_push(g.switch_bb): lim = (bi, g)
                    if op in ('Lt', 'Le') and g.requires(True) and before_push(g.switch_bb): lim = (bi, g)
        ctx.check(lim is not None, R + '/guards/range-limit', 'T-GUARD', body.name, 'no `width > max_integer_range` => error test before the mutation', body.site())
    # ---- atomic
    sites = T.check_atomic(body, ctx.S, ctx.F, atomic_callees=('relax_constraint',))
    late = [(what, bi, badexits) for what, bi, badexits in sites if badexits]
    ctx.check(not late, R + '/atomic', 'T-ATOMIC', body.name, 'an Err-exit (bb%s) is reachable after mutation `%s`' % (late[0][2], late[0][0]) if late else '', body.site(late[0][1]) if late else body.site(), sites=len(sites))
    # ---- the slack variable: the value handed to decision_variables.push.  STRUCT-BUILD idioms: a struct literal (with or
    #      without `..Default::default()`) | `let mut dv = DecisionVariable::default(); dv.id = ..; dv.kind = ..;` (field assignments)
    dvs = pushed_structs(body, pushes)
    ctx.check(bool(dvs), R + '/vars/one-aggregate', 'T-CARRY', body.name, 'the pushed decision variable is not built in this function', body.site())
    def field_ops(field):
        out = []
        for roots, agg in dvs:
            ops = []
            if agg is not None and agg_field_operand(agg, field) is not None: ops.append(agg_field_operand(agg, field))
            for bi, st in body.stmts():
                d = st['dst']
                if d['l'] in roots and d['p'] and fields_of_place(d)[:1] == [(DV, field)] or (d['l'] in roots and d['p'] and fields_of_place(d)[:1] and fields_of_place(d)[0][1] == field and fields_of_place(d)[0][0].endswith(DV)):
                    if st['rv'].get('ops'): ops = [st['rv']['ops'][0]]          # an assignment after the literal overrides it
            # the field set through the generated setter (`dv.set_kind(Kind::Integer)`) or mutated in place (`dv.subscripts.push(x)`)
            for c in body.calls:
                if not c.args or c.args[0]['k'] not in ('copy', 'move'): continue
                r0 = c.args[0]['pl']['l']
                for _ in range(3):
                    d0 = single_def(body, r0)
                    if d0 and d0[0] == 'stmt' and d0[2]['rv']['k'] == 'use' and d0[2]['rv']['ops'][0]['k'] in ('copy', 'move') and not d0[2]['rv']['ops'][0]['pl']['p']: r0 = d0[2]['rv']['ops'][0]['pl']['l']
                    else: break
                d0 = single_def(body, r0)
                if not (d0 and d0[0] == 'stmt' and d0[2]['rv']['k'] == 'ref' and d0[2]['rv'].get('mut') and d0[2]['rv']['pl']['l'] in roots): continue
                fp = fields_of_place(d0[2]['rv']['pl'])
                if not fp and c.item == 'set_' + field and len(c.args) == 2: ops = ops + [c.args[1]] if field == 'subscripts' else [c.args[1]]
                elif fp and fp[0][1] == field and fp[0][0].endswith(DV) and T.MUT_CALL.search(c.name) and len(c.args) >= 2: ops = ops + list(c.args[1:])
            out.append(ops)
        return out
    def field_rule(rule, field, what, pred):
        fo = field_ops(field)
        okk = bool(fo) and all(ops and all(pred(ctx.S.slice_operand(body, o)) for o in ops) for ops in fo)
        ctx.counters['slices'] += 1
        ctx.check(okk, rule, 'T-CARRY', body.name, what, body.site(pushes[0].bb))
        return fo
    if dvs:
        field_rule(R + '/vars/kind-integer', 'kind', 'field `kind` does not depend on: const ~ Kind::Integer', lambda sl_: denotes_variant(body, sl_, 'Kind::Integer'))
        ido = field_ops('id')
        idop = ido[0][0] if ido and ido[0] else None
        if idop is not None: fresh_id_rule(ctx, R + '/vars/fresh-id', body, idop, 'slack variable id')
        else: ctx.bad(R + '/vars/fresh-id', 'T-CARRY', body.name, 'slack variable id is never set', body.site(pushes[0].bb))
        field_rule(R + '/vars/subscripts', 'subscripts', 'field `subscripts` does not depend on: parameter _2', lambda sl_: 2 in sl_.params)
        bo = field_ops('bound')
        bop = bo[0][0] if bo and bo[0] else None
        bs = slice_op(ctx, body, bop) if bop is not None else None
        if convert:
            okb = False; slack_news = []
            for c in (bs.call_objs if bs else ()):
                if c.item == 'new' and c.path.endswith('Bound::new'):
                    k0 = const_operand(body, c.args[0])
                    lo0 = k0 is not None and T.f64_const(k0['v']) == 0.0
                    s1 = ctx.S.slice_operand(body, c.args[1])
                    sign, nums, dens = ratio(xexpr(body, c.args[1]))
                    neg_lower = sign == -1 and len(nums) == 1 and not dens and is_bound_call(nums[0], 'lower')
                    good = lo0 and neg_lower and s1.has_call('as_integer_bound') and s1.has_call('evaluate_bound')
                    if good: slack_news.append(c)
                    okb = okb or good
            ctx.check(okb, R + '/vars/bound', 'T-CARRY', body.name, 'slack bound is not Bound::new(0, -lower) of the integer bound of a*f', body.site(pushes[0].bb))
            limit_target_rule(ctx, R, body, slack_news)
        else:
            okb = False
            # v1::Bound { lower: 0.0, upper: slack_upper_bound as f64 }  |  Bound::new(0.0, ub) converted with .into()
            cands = []
            for b2, st2 in find_aggregates(body, 'v1::Bound'):
                if bs and st2['dst']['l'] in bs.locals:
                    d = dict(zip(st2['rv']['fields'], st2['rv']['ops'])); cands.append((d['lower'], d['upper']))
            for c in (bs.call_objs if bs else ()):
                if c.item == 'new' and c.path.endswith('Bound::new') and len(c.args) == 2: cands.append((c.args[0], c.args[1]))
            for lo_, up_ in cands:
                k0 = const_operand(body, lo_)
                lo0 = k0 is not None and T.f64_const(k0['v']) == 0.0
                up = ctx.S.slice_operand(body, up_)
                okb = okb or (lo0 and 3 in up.params and not up.has_call('evaluate_bound'))
            ctx.check(okb, R + '/vars/bound', 'T-CARRY', body.name, 'slack bound is not [0, slack_upper_bound]', body.site(pushes[0].bb))
    else:
        idop = None
    # ---- coefficient and the rewritten function.  FUNCTION-WRITE idioms: `constraint.function = Some(g)` |
    #      constraint.function.replace(g) / .insert(g) | `*constraint.function.as_mut()? = g` is not recognised
    fw = []          # (bb, operand holding the new function)
    for bi, st in body.stmts():
        if st['dst']['p'] and (CON, 'function') in fields_of_place(st['dst']) and st['rv'].get('ops'): fw.append((bi, st['rv']['ops'][0]))
    for c in body.calls:
        if c.item in ('replace', 'insert', 'get_or_insert') and 'Option::<v1::Function>' in c.name and len(c.args) == 2 and (CON, 'function') in T.access_path(body, c.args[0])[0]:
            fw.append((c.bb, c.args[1]))
    ctx.check(len(fw) >= 1, R + '/coef/one-write', 'T-CARRY', body.name, 'constraint.function is never rewritten', body.site())
    ADD_RE = r'ops::Add(<v1::(Linear|Function)>)? for v1::(Function|Linear)>::add|Function as std::ops::Add|ops::AddAssign<v1::Linear> for v1::Function'
    for bi, op_new in fw[:1]:
        allw = [ctx.S.slice_operand(body, o) for b_, o in fw]
        s = allw[0]
        # SLACK-TERM idioms: Linear::single_term(id, coef) (decided precisely) | Linear::new([(id, coef)], 0.0) (sources only)
        st_calls = [c for c in s.call_objs if c.item == 'single_term' and c.path.endswith('Linear>::single_term')]
        new_calls = [c for c in s.call_objs if c.item == 'new' and c.path.endswith('Linear>::new')]
        ctx.check(all(len([c for c in w.call_objs if (c.item == 'single_term' and c.path.endswith('Linear>::single_term')) or (c.item == 'new' and c.path.endswith('Linear>::new'))]) == 1 and w.has_call(ADD_RE) for w in allw),
                  R + '/coef/f-plus-slack-term', 'T-CARRY', body.name, 'new function is not `f + (one linear slack term)`', body.site(bi))
        # the summand that is not the slack term is the constraint's OWN function (clone / ref of constraint.function), not a product of it
        # (the scaled copy a*f is for the bound and the guards only: f + s/a = 0, not a*f + s/a = 0)
        scaled = []
        for b_, o in fw:
            for x in T.expr_walk(xexpr(body, o)):
                if x[0] == 'call' and re.search(ADD_RE, x[2]) and len(x[3]) == 2:
                    for y in x[3]:
                        if any(z[0] == 'call' and z[1] in ('single_term', 'new') and 'Linear>::' in z[2] for z in T.expr_walk(y)): continue
                        if any(z[0] == 'call' and MUL_CALL.search(z[2]) for z in T.expr_walk(y)): scaled.append(b_)
        ctx.check(all(w.has_field(CON, 'function') for w in allw) and not scaled, R + '/coef/keeps-f', 'T-CARRY', body.name,
                  'new function is built from a scaled copy of the old one (a*f + s/a instead of f + s/a)' if scaled else 'new function does not contain the old one', body.site(bi))
        if not st_calls and new_calls:
            c = new_calls[0]; ts = ctx.S.slice_operand(body, c.args[0])
            idl = (plain_source(body, idop) or set()) if idop else set()
            weak = bool(idl & ts.locals) and (ts.has_call(r'impl v1::Function>::content_factor') if convert else (ts.has_call(r'bound::Bound::lower') and 3 in ts.params))
            ctx.check(weak, R + '/coef/slack-term-sources', 'T-CARRY', body.name, 'the slack term is not made of the new id and the coefficient sources', body.site(c.bb))
            for leaf in ('slack-id', 'one-over-a' if convert else 'minus-lower-over-upper') + (() if convert else ('returned',)):
                undecided_weak(ctx, R + '/coef/' + leaf, 'T-CARRY', body.site(c.bb), 'slack term built with Linear::new: operands not separated; sources are decided by /coef/slack-term-sources', weak, body.name)
        for c in st_calls:
            same_id = bool(idop) and bool((plain_source(body, idop) or set()) & (plain_source(body, c.args[0]) or set()))
            ctx.check(same_id, R + '/coef/slack-id', 'T-CARRY', body.name, 'the slack term does not use the new variable id', body.site(c.bb))
            co = c.args[1]
            # COEFFICIENT as a signed ratio of atoms: -x, a*b, a/b, 0.0 - x, x.recip(), factors +-1.0 — in any grouping / hoisted into lets
            sign, nums, dens = ratio(xexpr(body, co))
            if convert:
                ok = sign == 1 and not nums and len(dens) == 1 and T.expr_has_call(dens[0], name_re=r'impl v1::Function>::content_factor') and \
                     T.strip_wrappers(dens[0])[0] == 'call' and T.strip_wrappers(dens[0])[1] == 'content_factor'
                ctx.check(ok, R + '/coef/one-over-a', 'T-CARRY', body.name, 'slack coefficient is not 1/a with a = content_factor()', body.site(c.bb))
            else:
                ok = sign == -1 and len(nums) == 1 and is_bound_call(nums[0], 'lower') and len(dens) == 1 and only_param(dens[0], 3)
                ctx.check(ok, R + '/coef/minus-lower-over-upper', 'T-CARRY', body.name, 'slack coefficient is not -lower / slack_upper_bound', body.site(c.bb))
                # the same value is returned
                rets = [(e, rst) for e, k, rst in body.ret_assignments() if k == 'ok' and e in body.reach([bi])]
                okr = bool(rets)
                cchain = plain_source(body, co) or set()
                for e, rst in rets:
                    same = False
                    op0 = rst['rv']['ops'][0]
                    for l in (plain_source(body, op0) or ()):
                        d2 = single_def(body, l)
                        if d2 and d2[0] == 'stmt' and d2[2]['rv']['k'] == 'agg' and d2[2]['rv']['adt'].endswith('Option::Some'):
                            same = bool((plain_source(body, d2[2]['rv']['ops'][0]) or set()) & cchain)
                    okr = okr and same
                ctx.check(okr, R + '/coef/returned', 'T-CARRY', body.name, 'the returned coefficient is not the one used in the slack term', body.site(bi))
    if convert:
        # SET-EQUALITY idioms: constraint.set_equality(Equality::EqualToZero) | constraint.equality = Equality::EqualToZero as i32
        def covers_ok_exits(bb): return all(body.dominates(bb, e) or e not in body.reach(sorted(push_bbs)) for e in body.strict_ok_exits())
        okk = False
        for c in body.calls:
            if c.item == 'set_equality' and len(c.args) == 2:
                v = enum_variant_of_operand(ctx, body, c.args[1])
                if bool(v) and v.endswith('Equality::EqualToZero') and covers_ok_exits(c.bb): okk = True
        for bi, st in body.stmts():
            if st['dst']['p'] and (CON, 'equality') in fields_of_place(st['dst']) and st['rv'].get('ops'):
                if denotes_variant(body, ctx.S.slice_operand(body, st['rv']['ops'][0]), 'Equality::EqualToZero') and covers_ok_exits(bi): okk = True
        ctx.check(okk, R + '/coef/set-equality', 'T-BRANCHFX', body.name, 'constraint is not turned into an equality', body.site())
    else:
        eqw = [bi for bi, st in body.stmts() if st['dst']['p'] and (CON, 'equality') in fields_of_place(st['dst'])]
        ctx.check(not eqw and not [c for c in body.calls if c.item == 'set_equality'], R + '/coef/equality-untouched', 'T-BRANCHFX', body.name, 'equality kind is modified', body.site())
    writes_only(ctx, R + '/only', body, {'decision_variables', 'constraints', 'removed_constraints'})
    return feats


MUL_CALL = re.compile(r'std::ops::Mul(<.*>)?( for [^>]*)?>::mul$')


def hull_rule(ctx, R, body):
    """convert: every interval whose ends decide infeasible / always-satisfied / the slack range is the INTEGER HULL OF THE
    INTERVAL OF a*f — rounding (as_integer_bound) is the outermost step.  Decided on the expression tree of the receiver of
    each Bound::lower()/upper() that derives from evaluate_bound:
       ok         as_integer_bound( evaluate_bound( a*f | f*a ) )            a = content_factor(), f = constraint.function (clone)
       ok         as_integer_bound( a * evaluate_bound(f) | evaluate_bound(f) * a )
                  (Bound * f64 scales both ends by the same non-negative a, interval evaluation is positively homogeneous,
                   and the floating-point difference to the first form is far below the atol = 1e-6 of as_integer_bound)
       violation  a multiplication above as_integer_bound (scaling after rounding: ceil/floor of the unscaled interval)
       violation  as_integer_bound of an interval that does not contain the factor a at all (rounding the interval of f)
       violation  no as_integer_bound
       undecided  anything else that keeps a inside and no product outside the rounding (weaker clause = the two above)"""
    is_a = lambda e: T.strip_wrappers(e)[0] == 'call' and T.strip_wrappers(e)[1] == 'content_factor'
    has_a = lambda e: any(x[0] == 'call' and x[1] == 'content_factor' for x in T.expr_walk(e))
    is_f = lambda e: (CON, 'function') in T.expr_fields(e) and not any(x[0] == 'call' and MUL_CALL.search(x[2]) for x in T.expr_walk(e))
    def interval_of(e):
        """'a*f' | 'f' | None for an expression that should be an interval (Bound)"""
        e = T.strip_wrappers(e)
        if e[0] != 'call': return None
        if e[1] == 'evaluate_bound' and e[2].endswith('impl v1::Function>::evaluate_bound'):
            g = T.strip_wrappers(e[3][0])
            if g[0] == 'call' and MUL_CALL.search(g[2]) and len(g[3]) == 2:
                x, y = g[3]
                if (is_a(x) and is_f(y)) or (is_a(y) and is_f(x)): return 'a*f'
                return None
            return 'f' if is_f(g) else None
        if MUL_CALL.search(e[2]) and len(e[3]) == 2:
            x, y = e[3]
            if is_a(x) and interval_of(y) == 'f': return 'a*f'
            if is_a(y) and interval_of(x) == 'f': return 'a*f'
        return None
    verdicts = []
    for c in body.calls:
        if c.item not in ('lower', 'upper') or not c.path.endswith('Bound::' + c.item) or not c.args: continue
        if not ctx.S.slice_operand(body, c.args[0]).has_call(r'impl v1::Function>::evaluate_bound'): continue
        e = T.strip_wrappers(T.expr(body, c.args[0], depth=40))
        if e[0] == 'call' and e[1] == 'new' and e[2].endswith('bound::Bound::new'): continue      # a constructed interval (the slack range): its ends are read from the hull, checked there
        nodes = list(T.expr_walk(e))
        rounds = [x for x in nodes if x[0] == 'call' and x[1] == 'as_integer_bound']
        outside = [x for x in nodes if x[0] == 'call' and MUL_CALL.search(x[2]) and any(y[0] == 'call' and y[1] == 'as_integer_bound' for a_ in x[3] for y in T.expr_walk(a_))]
        if outside: verdicts.append(('bad', c, 'the interval is scaled after it was rounded to integers'))
        elif not rounds: verdicts.append(('bad', c, 'the interval is not rounded to integers (as_integer_bound)'))
        elif not all(has_a(x) for x in rounds): verdicts.append(('bad', c, 'the interval of f is rounded without the content factor a'))
        elif e[0] == 'call' and e[1] == 'as_integer_bound' and interval_of(e[3][0]) == 'a*f': verdicts.append(('ok', c, ''))
        else: verdicts.append(('undecided', c, 'shape of the scaled interval not recognised: ' + T.expr_str(e, 8)[:160]))
    bad = [v for v in verdicts if v[0] == 'bad']; und = [v for v in verdicts if v[0] == 'undecided']
    rule = R + '/bound/hull-of-scaled'
    if not verdicts: ctx.bad(rule, 'T-CARRY', body.name, 'no bound.lower() / bound.upper() of an evaluated interval', body.site())
    elif bad: ctx.bad(rule, 'T-CARRY', body.name, bad[0][2], body.site(bad[0][1].bb))
    elif und: undecided_weak(ctx, rule, 'T-CARRY', body.site(und[0][1].bb), und[0][2], True, body.name)       # the violation clauses above were decided
    else: ctx.ok(rule, 'T-CARRY', body.site(verdicts[0][1].bb), ends=len(verdicts))


def limit_target_rule(ctx, R, body, slack_news):
    """convert: the quantity compared with max_integer_range is the range of the SLACK variable, i.e. of the very Bound value that
    is stored in the pushed DecisionVariable (value identity = same Bound::new call site, names do not matter):
       ok         B.width() | B.upper() - B.lower()   with B = that Bound::new(0, -lower)
       ok         -lower  of the scaled hull (the same expression as the upper end handed to that Bound::new; width([0,u]) = u - 0.0 = u)
       violation  width / upper - lower of any other interval (e.g. of the hull of a*f itself: upper - lower instead of -lower)
       undecided  another expression (the slice-based guards/range-limit stays decided)"""
    rule = R + '/guards/range-limit/of-slack-bound'
    news = {c.bb for c in slack_news}
    def bound_site(e):
        """call site (bb) of the Bound::new a Bound-valued expression is, or the item name of another producing call, or None"""
        e = T.strip_wrappers(e)
        if e[0] == 'call' and e[1] == 'new' and e[2].endswith('bound::Bound::new'): return e[4]
        if e[0] == 'call': return e[1]
        return None
    verdicts = []
    for bi, st in float_cmp_sites(body, ('Gt', 'Ge', 'Lt', 'Le')):
        ops = st['rv']['ops']
        ss = [ctx.S.slice_operand(body, o) for o in ops]
        lim = [i for i, s_ in enumerate(ss) if 3 in s_.params and not s_.has_call(r'bound::Bound::')]
        if len(lim) != 1: continue
        other = ops[1 - lim[0]]
        if not ctx.S.slice_operand(body, other).has_call(r'impl v1::Function>::evaluate_bound'): continue
        e = T.arith(xexpr(body, other))
        # "a range ABOVE the limit is rejected": range > limit  ==  limit < range  ==  !(range <= limit); `>=` / `<` would reject the limit itself
        op = st['rv']['op'] if lim[0] == 1 else {'Gt': 'Lt', 'Lt': 'Gt', 'Ge': 'Le', 'Le': 'Ge'}[st['rv']['op']]
        if op in ('Ge', 'Lt'):
            verdicts.append(('bad', bi, 'the slack range is compared with `%s` against max_integer_range: a range equal to the limit is rejected' % op)); continue
        # the range itself: no constant added to / subtracted from it (e.g. width + 1.0 "number of integers")
        if e[0] == 'bin' and e[1] in ('Add', 'Sub', 'Mul', 'Div') and any(x[0] == 'const' for x in (e[2], e[3])) and \
                any(y[0] == 'call' and y[1] in ('width', 'lower', 'upper') and y[2].endswith('bound::Bound::' + y[1]) for y in T.expr_walk(e)) and \
                not (e[1] == 'Sub' and e[2][0] == 'const' and T.f64_const(e[2][1]) == 0.0):
            verdicts.append(('bad', bi, 'the quantity compared with max_integer_range is the slack range changed by a constant (%s)' % T.expr_str(e, 4)[:80])); continue
        if e[0] == 'call' and e[1] == 'width' and e[2].endswith('bound::Bound::width') and e[3]:
            site = bound_site(e[3][0])
            verdicts.append(('ok' if site in news else 'bad', bi, 'the limit is applied to the width of `%s`, not of the slack variable\'s bound' % site))
        elif e[0] == 'bin' and e[1] == 'Sub' and is_bound_call(e[2], 'upper') and is_bound_call(e[3], 'lower'):
            su, sl_ = bound_site(T.strip_wrappers(e[2])[3][0]), bound_site(T.strip_wrappers(e[3])[3][0])
            verdicts.append(('ok' if su in news and sl_ == su else 'bad', bi, 'the limit is applied to upper - lower of `%s`, not of the slack variable\'s bound' % su))
        else:
            sign, nums, dens = ratio(e)
            if sign == -1 and len(nums) == 1 and not dens and is_bound_call(nums[0], 'lower') and any(y[0] == 'call' and y[1] == 'as_integer_bound' for y in T.expr_walk(nums[0])):
                verdicts.append(('ok', bi, ''))
            else: verdicts.append(('undecided', bi, 'quantity compared with max_integer_range not recognised: ' + T.expr_str(e, 6)[:140]))
    bad = [v for v in verdicts if v[0] == 'bad']; und = [v for v in verdicts if v[0] == 'undecided']
    if not verdicts: ctx.bad(rule, 'T-CARRY', body.name, 'no comparison of a slack range with max_integer_range', body.site())
    elif bad: ctx.bad(rule, 'T-CARRY', body.name, bad[0][2], body.site(bad[0][1]))
    elif und: undecided_weak(ctx, rule, 'T-CARRY', body.site(und[0][1]), und[0][2], True, body.name)
    else: ctx.ok(rule, 'T-CARRY', body.site(verdicts[0][1]))


def unrounded_rule(ctx, R, body):
    """add: the slack coefficient b = -lower / ub is a real number, so the interval of the UNSCALED f must be used as it is: every
    Bound::lower()/upper() that derives from evaluate_bound reads  evaluate_bound(f)  itself.  Rounding it (as_integer_bound is only
    meaningful for the integer-scaled a*f of the sibling) or scaling it changes the always-satisfied / infeasible verdicts and b.
       ok         evaluate_bound(f)            f = constraint.function (through refs, clones, hoisted lets)
       violation  an as_integer_bound or a product anywhere between evaluate_bound and the end that is read
       undecided  any other shape without those"""
    rule = R + '/bound/unrounded'
    is_f = lambda e: (CON, 'function') in T.expr_fields(e)
    verdicts = []
    for c in body.calls:
        if c.item not in ('lower', 'upper') or not c.path.endswith('Bound::' + c.item) or not c.args: continue
        if not ctx.S.slice_operand(body, c.args[0]).has_call(r'impl v1::Function>::evaluate_bound'): continue
        e = T.strip_wrappers(T.expr(body, c.args[0], depth=40))
        nodes = list(T.expr_walk(e))
        if any(x[0] == 'call' and x[1] == 'as_integer_bound' for x in nodes): verdicts.append(('bad', c, 'the interval of the unscaled f is rounded to integers'))
        elif any(x[0] == 'call' and MUL_CALL.search(x[2]) for x in nodes): verdicts.append(('bad', c, 'the interval of f is scaled'))
        elif e[0] == 'call' and e[1] == 'evaluate_bound' and e[2].endswith('impl v1::Function>::evaluate_bound') and is_f(e[3][0]): verdicts.append(('ok', c, ''))
        else: verdicts.append(('undecided', c, 'interval expression not recognised: ' + T.expr_str(e, 6)[:140]))
    bad = [v for v in verdicts if v[0] == 'bad']; und = [v for v in verdicts if v[0] == 'undecided']
    if not verdicts: ctx.bad(rule, 'T-CARRY', body.name, 'no bound.lower() / bound.upper() of an evaluated interval', body.site())
    elif bad: ctx.bad(rule, 'T-CARRY', body.name, bad[0][2], body.site(bad[0][1].bb))
    elif und: undecided_weak(ctx, rule, 'T-CARRY', body.site(und[0][1].bb), und[0][2], True, body.name)       # the violation clauses above were decided
    else: ctx.ok(rule, 'T-CARRY', body.site(verdicts[0][1].bb), ends=len(verdicts))


def pushed_structs(body, pushes):
    """for every push: (locals holding the struct before the push — plain copy chain, aggregate statement or None)"""
    out = []
    for c in pushes:
        o = c.args[-1]
        roots = plain_source(body, o) or set()
        agg = None
        for l in roots:
            for k, bi, d in body.defs_of(l):
                if k == 'stmt' and not d['dst']['p'] and d['rv']['k'] == 'agg' and d['rv']['adt'].endswith(DV): agg = d
        built = agg is not None or any(k == 'call' and (d.get('ri') or {}).get('item') in ('default', 'new', 'clone') for l in roots for k, bi, d in body.defs_of(l))
        if built: out.append((roots, agg))
    return out


def denotes_variant(body, sl_, variant_suffix):
    """VARIANT-AS-INTEGER idioms for a raw prost field: `Enum::V as i32` (the discriminant constant) | `Enum::V.into()` /
    `i32::from(Enum::V)` (the variant value itself, converted): the slice of the stored value contains that variant and no other"""
    if sl_.has_const(re.escape(variant_suffix)): return True
    for bi, st in body.stmts():
        rv = st['rv']
        if rv['k'] == 'agg' and not rv['ops'] and rv['adt'].endswith(variant_suffix) and st['dst']['l'] in sl_.locals: return True
    return False


def xexpr(body, operand):
    """T.expr, continued through CARRIES where T.expr stops: a local with several definitions, or a projection of a value that went
    through `?` / let-else / a helper returning Result<Option<_>> (`((x as Continue).0 as Some).0` of Err | Ok(None) | Ok(Some(v))):
    C11.value_web follows every definition that is compatible with the projection; when they all lead to ONE computed value, the
    expression of that value is substituted."""
    def stack_of(fs):
        out = []
        for owner, f in fs:
            name = owner.split('::')[-1]
            if owner == 'tuple' or not ('::' in owner and name in ('Ok', 'Some', 'Continue', 'Err', 'None', 'Break')): out.append(('f', f))
            else: out += [('dc', name), ('f', f)]
        return out
    OWNER = {'Continue': 'std::ops::ControlFlow::Continue', 'Ok': 'std::result::Result::Ok', 'OKISH': 'std::result::Result::Ok', 'Some': 'std::option::Option::Some',
             'Err': 'std::result::Result::Err', 'Break': 'std::ops::ControlFlow::Break', 'None': 'std::option::Option::None'}
    def fs_of(stack):
        out = []; i = 0
        while i < len(stack):
            if stack[i][0] == 'dc' and i + 1 < len(stack) and stack[i + 1][0] == 'f': out.append((OWNER.get(stack[i][1], stack[i][1]), stack[i + 1][1])); i += 2
            elif stack[i][0] == 'f': out.append(('tuple', stack[i][1])); i += 1
            else: i += 1
        return out
    seen = set()
    def simp(e, stack, depth=0):
        if depth > 40 or not isinstance(e, tuple): return e
        k = e[0]
        if k == 'proj': return simp(e[1], stack_of(e[2]) + stack, depth + 1)
        if k == 'call' and T.TRY_BRANCH.search(e[2]) and stack[:1] == [('dc', 'Continue')] and e[3]: return simp(e[3][0], [('dc', 'OKISH')] + stack[1:], depth + 1)
        if k == 'agg' and e[1].split('::')[-1] in ('Ok', 'Some', 'Continue') and len(stack) >= 2 and stack[0][0] == 'dc' and stack[0][1] in (e[1].split('::')[-1], 'OKISH') and e[2]:
            return simp(e[2][0], stack[2:], depth + 1)
        if k in ('local', 'place') and e[1] >= 0 and not (1 <= e[1] <= body.argc):
            st_ = (stack_of(e[2]) if k == 'place' else []) + stack
            key = (e[1], tuple(st_))
            if key not in seen:
                seen.add(key)
                orig = []
                consts, adds, others = value_web(body, e[1], st_, lambda o: False, origins=orig)
                cands = sorted(set(orig))
                if len(cands) == 1 and not consts and not (cands[0] == e[1] and not st_):
                    return simp(T.expr(body, {'k': 'copy', 'pl': {'l': cands[0], 'p': []}}, depth=40), [], depth + 1)
            if stack: return ('proj', e, fs_of(stack))
            return e
        if stack: inner = simp(e, [], depth + 1); return ('proj', inner, fs_of(stack))
        if k == 'bin': return ('bin', e[1], simp(e[2], [], depth + 1), simp(e[3], [], depth + 1))
        if k in ('un', 'cast'): return (k, e[1], simp(e[2], [], depth + 1))
        if k == 'call': return ('call', e[1], e[2], [simp(a, [], depth + 1) for a in e[3]]) + tuple(e[4:])
        if k == 'agg': return ('agg', e[1], [simp(a, [], depth + 1) for a in e[2]])
        if k == 'discr': return ('discr', simp(e[1], [], depth + 1))
        return e
    return simp(T.expr(body, operand, depth=40), [])


def ratio(e):
    """(sign, numerator atoms, denominator atoms) of an f64 product / quotient expression tree"""
    e = T.arith(e); k = e[0]
    if k == 'un' and e[1] == 'Neg':
        s, n, d = ratio(e[2]); return -s, n, d
    if k == 'bin' and e[1] == 'Mul':
        s1, n1, d1 = ratio(e[2]); s2, n2, d2 = ratio(e[3]); return s1 * s2, n1 + n2, d1 + d2
    if k == 'bin' and e[1] == 'Div':
        s1, n1, d1 = ratio(e[2]); s2, n2, d2 = ratio(e[3]); return s1 * s2, n1 + d2, d1 + n2
    if k == 'bin' and e[1] == 'Sub' and e[2][0] == 'const' and T.f64_const(e[2][1]) == 0.0:
        s, n, d = ratio(e[3]); return -s, n, d
    if k == 'const' and T.f64_const(e[1]) in (1.0, -1.0): return int(T.f64_const(e[1])), [], []
    if k == 'call' and e[1] == 'recip' and re.search(r'f64>::recip$', e[2]) and e[3]:
        s, n, d = ratio(e[3][0]); return s, d, n
    return 1, [e], []


def is_bound_call(e, item):
    e = T.strip_wrappers(e)
    return e[0] == 'call' and e[1] == item and e[2].endswith('bound::Bound::' + item)


def only_param(e, p):
    """the atom is parameter p (possibly cast / copied), nothing else"""
    leaves = [x for x in T.expr_walk(e) if x[0] in ('place', 'local', 'const', 'call')]
    return bool(leaves) and all(x[0] == 'place' and x[1] == p and not x[2] for x in leaves)


KEYED_FILL = re.compile(r'collect::<std::collections::(BTreeMap|HashMap|BTreeSet|HashSet)<|<std::collections::(BTreeMap|HashMap|BTreeSet|HashSet)<.*> as std::iter::(FromIterator|Extend)'
                        r'|(BTreeMap|HashMap|BTreeSet|HashSet)::<.*>::insert$')


def bound_kernel_rules(ctx):
    """Function::evaluate_bound, the interval both slack functions decide on: every STORED term of f contributes to it.  The interval
    arithmetic itself is not decided here; these are the structural necessary conditions:
       accumulates-terms   a loop over the function's own terms (`&Function: IntoIterator` of self) adds into the returned Bound
       every-term-kept     the items of that loop reach it without passing a keyed container filled by insert / collect / extend
                           (a map keeps ONE coefficient per monomial: a monomial stored twice — x1 + x1, (1,2) and (2,1) — would lose
                           a term; a Vec, or a map filled by `entry += c`, does not)
       every-term-counts   every path of an item back to the loop header passes such an addition, or the coefficient is zero"""
    R = 'C13.bound'
    b = ctx.method(R + '/anchor', 'v1::Function', 'evaluate_bound')
    if b is None: return
    S = ctx.S
    ret = S.backslice(b, [0])
    accs = [c for c in b.calls if re.search(r'bound::Bound as std::ops::(AddAssign|Add)\b', c.name) and c in ret.call_objs]
    loops = []
    for lo in T.for_loops(b):
        si = S.slice_operand(b, lo[0].args[0])
        if 1 in si.params and any(re.search(r"IntoIterator for &('\w+ )?v1::Function>::into_iter", c.name) for c in si.call_objs) and any(c.bb in lo[4] for c in accs):
            loops.append((lo, si))
    # the outermost such loop (an inner loop over the factors of a monomial also derives from the term)
    loops = [x for x in loops if not any(y is not x and x[0][4] < y[0][4] for y in loops)]
    ctx.check(bool(loops), R + '/accumulates-terms', 'T-LOOPMUST', b.name, 'no loop over the terms of the function adds into the returned bound', b.site())
    if not loops: return
    lo, si = loops[0]; nextc, header, some_bb, none_bb, blocks = lo
    fills = sorted({c.name[:90] for c in si.call_objs if KEYED_FILL.search(c.name)})
    ctx.check(not fills, R + '/every-term-kept', 'T-CARRY', b.name, 'the terms pass a keyed container that keeps one coefficient per monomial: %s' % fills[:2], b.site(nextc.bb))
    via = {c.bb for c in accs if c.bb in blocks}
    for c in b.calls:
        if c.bb in blocks and c.item == 'is_zero' and c.args and nextc in S.slice_operand(b, c.args[0]).call_objs and not c.dst['p']:
            for sb, neg in T.bool_flow(b, c.dst['l']):
                t, f = T.switch_sides(b, sb, neg)
                if t is not None: via.add(t)
    for bi, st, x, small_true, kind in negligible_tests(ctx, b, blocks):
        if kind == 'zero' and nextc in S.slice_operand(b, x).call_objs:
            for sb, neg in T.bool_flow(b, st['dst']['l']):
                t, f = T.switch_sides(b, sb, neg)
                z = t if small_true else f
                if z is not None: via.add(z)
    ctx.counters['cfg_paths'] += 1
    ctx.check(must_pass_v(b, some_bb, {header}, via), R + '/every-term-counts', 'T-LOOPMUST', b.name, 'a term with a non-zero coefficient can be skipped', b.site(nextc.bb))


def integer_hull_rules(ctx):
    """Bound::as_integer_bound, the rounding both the infeasible / always-satisfied verdicts and the slack range of `convert` go through:
    the lower end is rounded UP and the upper end DOWN after widening by a tolerance that absorbs the rounding noise of the interval
    evaluation.  Structural clause (the numerics are not decided): every ceil / floor argument is `end -/+ t` with the matching end of
    self and t a positive CONSTANT (literal or named const) not larger than 1e-6 — never a value computed from the bound's own ends
    (a relative tolerance vanishes at an end that is 0 up to noise, and 0 + 4e-16 rounds up to 1).
       ok         (self.lower - t).ceil(), (self.upper + t).floor()    also `end + (-t)`, `t + end`, f64::ceil(..), ends / t hoisted into lets
       violation  t depends on a place or a call; t <= 0 or t > 1e-6; ceil applied to the upper end / floor to the lower end; no rounding
       undecided  any other argument shape (weaker clause: the argument reads that end of self and no other place)"""
    R = 'C13.bound'
    b = ctx.method(R + '/integer-hull/anchor', 'bound::Bound', 'as_integer_bound')
    if b is None: return
    def const_val(e):
        """value of a constant f64 expression (literal, named const, negation), else None"""
        e = T.arith(e)
        if e[0] == 'un' and e[1] == 'Neg':
            v = const_val(e[2]); return None if v is None else -v
        if e[0] != 'const': return None
        v = T.f64_const(e[1])
        if v is None:
            nm = e[1].strip()
            if nm.startswith('const '): nm = nm[6:]
            kv = ctx.F.consts.get(nm)
            if kv is None:
                hits = [x for n, x in ctx.F.consts.items() if n.endswith('::' + nm.split('::')[-1])]
                kv = hits[0] if len(hits) == 1 else None
            if kv is not None: v = T.f64_const(str(kv[1]) if str(kv[1]).endswith('f64') else str(kv[1]) + 'f64')
        return v
    def end_of(e):
        e = T.strip_wrappers(e)
        if e[0] == 'place' and e[1] == 1 and e[2] and e[2][-1][1] in ('lower', 'upper') and e[2][-1][0].endswith('bound::Bound'): return e[2][-1][1]
        return None
    has_value = lambda e: any(x[0] in ('place', 'local', 'call', 'proj') for x in T.expr_walk(e))
    bad = []; und = []; seen = set()
    for c in b.calls:
        if c.item not in ('ceil', 'floor') or not re.search(r'f64>::(ceil|floor)$', c.name) or not c.args: continue
        want_end, sign = ('lower', -1) if c.item == 'ceil' else ('upper', +1)
        e = T.arith(T.expr(b, c.args[0], depth=20))
        end = None; t = None; dep = False
        if e[0] == 'bin' and e[1] in ('Add', 'Sub'):
            x, y = e[2], e[3]
            if end_of(x) is not None: end = end_of(x); k = y; ks = +1 if e[1] == 'Add' else -1
            elif end_of(y) is not None and e[1] == 'Add': end = end_of(y); k = x; ks = +1
            if end is not None:
                if has_value(k): dep = True
                else:
                    v = const_val(k); t = None if v is None else sign * ks * v         # the amount by which the end is WIDENED
        if end is None:
            ends = {end_of(x) for x in T.expr_walk(e)} - {None}
            und.append((c, 'argument of %s not of the form end -/+ t' % c.item, ends == {want_end} and not any(x[0] == 'call' for x in T.expr_walk(e)))); continue
        seen.add((c.item, end))
        if end != want_end: bad.append((c, '%s is applied to the %s end' % (c.item, end)))
        elif dep: bad.append((c, 'the tolerance of %s is computed from a value (not a constant)' % c.item))
        elif t is None: und.append((c, 'tolerance of %s is not a recognisable constant' % c.item, True))
        elif not (0.0 < t <= 1.0000001e-6): bad.append((c, 'the %s end is widened by %r, expected a constant in (0, 1e-6]' % (end, t)))
    for need in (('ceil', 'lower'), ('floor', 'upper')):
        if need not in seen and not und: bad.append((None, 'the %s end is not rounded with %s' % (need[1], need[0])))
    rule = R + '/integer-hull/tolerance'
    if bad: ctx.bad(rule, 'T-CONST', b.name, bad[0][1], b.site(bad[0][0].bb) if bad[0][0] is not None else b.site())
    elif und: undecided_weak(ctx, rule, 'T-CONST', b.site(und[0][0].bb), und[0][1], all(w for _, _, w in und), b.name, 'the rounded value is not just that end of self and constants')
    else: ctx.ok(rule, 'T-CONST', b.site(), roundings=len(seen))


def check(ctx):
    bound_kernel_rules(ctx)
    integer_hull_rules(ctx)
    a = slack_rules(ctx, 'convert_inequality_to_equality_with_integer_slack', True)
    b = slack_rules(ctx, 'add_integer_slack_to_inequality', False)
    # sibling agreement on the shared guard set
    ctx.check(a == b, 'C13.sibling/guard-set', 'T-SIBLING', 'convert_… vs add_…', 'guard sets differ: convert=%s add=%s' % (sorted(a.items()), sorted(b.items())))
    ctx.floor('C13.convert', 47); ctx.floor('C13.add', 45); ctx.floor('C13.bound', 4)
