"""C01 — evaluation returns the polynomial's value (DESIGN §5 C01)."""
from .common import *

STATE_GET = r'HashMap::<u64, f64>::get'
# documented "is this variable fixed?" probes: a missing entry legitimately means "keep the term"
PROBE_EXEMPT = {
    ('v1::Linear', 'partial_evaluate'): 1, ('v1::Quadratic', 'partial_evaluate'): 3, ('v1::Polynomial', 'partial_evaluate'): 1,
    ('v1::Instance', 'partial_evaluate'): 1, ('v1::Instance', 'check_bound'): 0,
}


def state_lookups(ctx, body, state_param=2):
    out = []
    for c in body.calls:
        if c.item == 'get' and re.search(STATE_GET, c.name):
            fs, root, _ = T.access_path(body, c.args[0])
            if ('v1::State', 'entries') in fs: out.append(c)
    return out


def is_lookup_leaf(body, e, lookups):
    e = T.strip_wrappers(e)
    return e[0] == 'call' and e[1] == 'get' and re.search(STATE_GET, e[2])


def lookup_key_fields(e):
    e = T.strip_wrappers(e)
    return T.expr_fields(e[3][1]) + [('tuple-leaf', T.expr_str(e[3][1]))]


def returned_pair(ctx, rule, body):
    """(value operand, set operand) of the `Ok((value, set))` exits"""
    out = []
    for e, k, st in body.ret_assignments():
        if k == 'ok':
            op = st['rv']['ops'][0]
            if op['k'] in ('copy', 'move'):
                for k2, b2, d in body.defs_of(op['pl']['l']):
                    if k2 == 'stmt' and d['rv']['k'] == 'agg' and d['rv']['adt'] == 'tuple' and len(d['rv']['ops']) == 2:
                        out.append((e, d['rv']['ops'][0], d['rv']['ops'][1]))
    return out


def acc_local(body, operand):
    """the accumulator local behind an operand (through plain copies)"""
    if operand['k'] not in ('copy', 'move'): return None
    l = operand['pl']['l']
    for _ in range(4):
        ds = [d for d in body.defs_of(l) if d[0] == 'stmt' and not d[2]['dst']['p']]
        if len(ds) == 1 and len(body.defs_of(l)) == 1 and ds[0][2]['rv']['k'] == 'use' and ds[0][2]['rv']['ops'][0]['k'] in ('copy', 'move') and not ds[0][2]['rv']['ops'][0]['pl']['p']:
            l = ds[0][2]['rv']['ops'][0]['pl']['l']
        else: break
    return l


def product_factors(body, e, depth=0):
    """leaves of a product; an accumulator local is expanded into init * updates"""
    out = []
    for leaf in T.flatten(e, 'Mul'):
        if leaf[0] in ('local', 'place') and not (leaf[0] == 'place' and leaf[2]) and depth < 2:
            l = leaf[1]
            if body.locals[l] == 'f64' and len(body.defs_of(l)) + 0 >= 1:
                init, ups = T.accumulator(body, l)
                if ups and all(op == 'Mul' for op, side, x, bi in ups) and len(init) == 1:
                    out += product_factors(body, init[0][0], depth + 1)
                    for op, side, x, bi in ups: out += product_factors(body, x, depth + 1)
                    continue
                if ups:
                    out.append(('bad-accumulator', [op for op, s, x, b in ups])); continue
        out.append(leaf)
    return out


def kernel_rules(ctx, ty, coef_fields, id_fields, init_kind):
    """ty: self type; coef_fields: {(adt, field)} of the coefficient; id_fields: id fields that must each be looked up"""
    R = 'C01'
    short = ty.split('::')[-1]
    body = ctx.method(R + '.anchor/%s::evaluate' % short, ty, 'evaluate', trait='Evaluate')
    if body is None: return
    lookups = state_lookups(ctx, body)
    # ---- C01.lookup: a missing variable is an error
    ctx.check(len(lookups) == len(id_fields), R + '.lookup/%s/count' % short, 'T-ERRFLOW', body.name, 'expected %d state lookups, found %d' % (len(id_fields), len(lookups)), body.site())
    errflow_calls(ctx, R + '.lookup/%s/missing-is-error' % short, body, lookups, 'state lookup')
    for c in lookups:
        ctx.check(T.access_path(body, c.args[0])[1] == 2, R + '.lookup/%s/state' % short, 'T-CARRY', body.name, 'lookup is not in the given state', body.site(c.bb))
    pairs = returned_pair(ctx, R, body)
    ctx.check(len(pairs) == 1, R + '.fields/%s/result' % short, 'T-CARRY', body.name, 'expected one Ok((value, ids)) exit, found %d' % len(pairs), body.site())
    if len(pairs) != 1: return
    exit_bb, vop, sop = pairs[0]
    # ---- the term loop
    loops = [lo for lo in T.for_loops(body) if any(c.bb in lo[4] for c in lookups)]
    outer = [lo for lo in loops if not any(set(lo[4]) < set(o[4]) for o in loops)]
    ctx.check(len(outer) == 1, R + '.every-term/%s/loop' % short, 'T-LOOPMUST', body.name, 'expected one term loop, found %d' % len(outer), body.site())
    if len(outer) != 1: return
    lo = outer[0]; nextc, header, some_bb, none_bb, blocks = lo
    si = ctx.S.slice_operand(body, nextc.args[0])
    restr = sorted({x.item for x in si.call_objs if x.item in RESTRICTING and 'Iterator' in (x.trait or '')})
    ctx.check(not restr, R + '.every-term/%s/all-terms' % short, 'T-LOOPMUST', body.name, 'term iterator is restricted by %s' % restr, body.site(nextc.bb))
    ctx.check(all(body.dominates(header, e) for e in body.strict_ok_exits()), R + '.every-term/%s/dominates' % short, 'T-MUSTCALL', body.name, 'term loop does not dominate the Ok-exit', body.site(nextc.bb))
    # ---- the loops iterate the message's own term / id lists directly (no filtered, de-duplicated or re-ordered copy)
    ITERISH = re.compile(r'::(into_iter|iter|deref|as_ref|as_slice|borrow)(::<.*>)?$')
    next_dsts = {l[0].dst['l'] for l in loops}
    for l in loops:
        srcs = [l[0].args[0]]
        # multizip / zip of several iterators: check each component
        sx = T.expr(body, l[0].args[0], depth=10)
        zips = [x for x in T.expr_walk(sx) if x[0] == 'call' and re.search(r'multizip|::zip', x[2])]
        ok_src = True; why = ''
        if zips:
            comps = []
            for z in zips:
                for a in z[3]:
                    if a[0] == 'agg' and a[1] == 'tuple': comps += a[2]
                    else: comps.append(a)
            for cx in comps:
                # each component must be <field>.iter() of self
                calls_ = [x for x in T.expr_walk(cx) if x[0] == 'call']
                if any(not ITERISH.search(T.strip_generics_tail(x[2])) for x in calls_) or not any(x[0] == 'place' and x[1] == 1 for x in T.expr_walk(cx)):
                    ok_src = False; why = T.expr_str(cx)
        else:
            fs_, root_, calls_ = T.access_path(body, l[0].args[0], transparent=ITERISH)
            last_ok = (not calls_) or all(ITERISH.search(T.strip_generics_tail(x)) or x.endswith('::next') for x in calls_)
            ok_src = last_ok and (root_ == 1 or root_ in next_dsts) and bool(fs_)
            why = 'path %s via %s' % (fs_, [x.split('::')[-1] for x in calls_])
        ctx.check(ok_src, R + '.every-term/%s/iterates-message-directly' % short, 'T-LOOPMUST', body.name,
                  'a loop iterates a derived collection instead of the message\'s own list (%s)' % why, body.site(l[0].bb))
    # every arithmetic update of the value happens exactly once per looked-up id: in the lookup's own loop
    def innermost(bb):
        ls = [l for l in T.for_loops(body) if bb in l[4]]
        allh = [(h, bl) for h, bl in body.loops().items() if bb in bl]
        return min(allh, key=lambda x: len(x[1]))[0] if allh else None
    for c in lookups:
        lh = innermost(c.bb)
        for c2 in body.calls:
            if T.ASSIGN_CALL.match(c2.name):
                ex2 = T.expr(body, c2.args[1])
                if any(x[0] == 'call' and x[1] == 'get' and len(x) > 4 and x[4] == c.bb for x in T.expr_walk(ex2)) or (c2.bb in body.reach([c.bb]) and innermost(c2.bb) != lh and lh in [h for h, bl in body.loops().items() if c2.bb in bl]):
                    ctx.check(innermost(c2.bb) == lh, R + '.fields/%s/one-factor-per-id' % short, 'T-LOOPMUST', body.name,
                              'a looked-up value is multiplied in inside a nested loop (not exactly once per id)', body.site(c2.bb))
    # ---- accumulator shape: sum = init; sum += coefficient * Π lookup(id)
    sum_l = acc_local(body, vop)
    init, ups = T.accumulator(body, sum_l) if sum_l is not None else ([], [])
    ctx.check(len(ups) == 1 and ups[0][0] == 'Add', R + '.fields/%s/sum-is-added' % short, 'T-BRANCHFX', body.name,
              'the result is not accumulated with exactly one `sum += term` (found %s)' % [(op) for op, s, x, b in ups], body.site())
    # init
    init_ok = False; init_descr = [T.expr_str(x) for x, bi in init]
    if init_kind == 'constant':
        init_ok = len(init) == 1 and T.expr_fields(init[0][0]) == [('v1::Linear', 'constant')]
    elif init_kind == 'zero':
        init_ok = len(init) == 1 and init[0][0] == ('const', '0f64')
    elif init_kind == 'linear-part':
        # (sum, ids) = if let Some(linear) = &self.linear { linear.evaluate(state)? } else { (0.0, {}) }
        ex = T.expr(body, {'k': 'copy', 'pl': {'l': sum_l, 'p': []}}, depth=3)
        tl = None
        for x, bi in init:
            if x[0] in ('place', 'proj'):
                tl = x
        pair_l = None
        for k2, b2, d in body.defs_of(sum_l):
            if k2 == 'stmt' and d['rv']['k'] == 'use' and d['rv']['ops'][0]['k'] in ('copy', 'move') and fields_of_place(d['rv']['ops'][0]['pl']) == [('tuple', '0')]:
                pair_l = d['rv']['ops'][0]['pl']['l']
        some_ok = none_ok = False
        if pair_l is not None:
            tests = option_field_tests(body, 'v1::Quadratic', 'linear')
            for k2, b2, d in body.defs_of(pair_l):
                if k2 == 'stmt' and d['rv']['k'] == 'agg' and d['rv']['adt'] == 'tuple':
                    o0 = d['rv']['ops'][0]
                    if o0['k'] == 'const' and o0['v'] == '0f64' and any(b2 in body.reach([nn], stop={header}) and b2 not in body.reach([sm], stop={header}) for sb, sm, nn in tests):
                        none_ok = True
                        # an absent linear part is not an error
                        ctx.check(bool(body.reach([b2]) & body.strict_ok_exits()), R + '.linear-none/ok', 'T-GUARD', body.name, 'absent linear part leads to an error', body.site(b2))
                elif k2 == 'stmt' and d['rv']['k'] == 'use':
                    ex2 = T.expr(body, d['rv']['ops'][0], depth=10)
                    ev = [x for x in T.expr_walk(ex2) if x[0] == 'call' and x[1] == 'evaluate' and 'v1::Linear as evaluate::Evaluate' in x[2]]
                    if ev and ('v1::Quadratic', 'linear') in T.expr_fields(ev[0][3][0]) and T.strip_wrappers(ev[0][3][1]) == ('place', 2, []): some_ok = True
        init_ok = some_ok and none_ok
        ctx.check(none_ok, R + '.linear-none/zero', 'T-CONST', body.name, 'absent linear part does not contribute (0, {})', body.site())
        le = [c for c in body.calls if c.item == 'evaluate' and 'v1::Linear as evaluate::Evaluate' in c.name]
        errflow_calls(ctx, R + '.fields/%s/linear-error' % short, body, le, 'linear part evaluation')
    ctx.check(init_ok, R + '.fields/%s/init' % short, 'T-CARRY', body.name, 'accumulator does not start from %s (found %s)' % (init_kind, init_descr), body.site())
    # the term
    if len(ups) == 1:
        op, side, term, ubi = ups[0]
        facs = product_factors(body, term)
        coefs = [f for f in facs if any(cf in T.expr_fields(f) for cf in coef_fields) or (short == 'Quadratic' and zip_field(ctx, body, nextc, f) == 'values')]
        looks = [f for f in facs if is_lookup_leaf(body, f, lookups)]
        other = [f for f in facs if f not in coefs and f not in looks]
        ctx.check(len(coefs) == 1 and not other and len(looks) == len(id_fields), R + '.fields/%s/term-is-coefficient-times-values' % short, 'T-BRANCHFX', body.name,
                  'term is not coefficient × Π value(id): factors = %s' % [T.expr_str(f) for f in facs], body.site(ubi), factors=[T.expr_str(f) for f in facs])
        # each lookup is keyed by an id of this term
        keys = []
        for f in looks:
            kx = T.strip_wrappers(f)[3][1]
            kf = T.expr_fields(kx)
            zf = zip_field(ctx, body, nextc, kx) if short == 'Quadratic' else None
            keys.append(zf or [x for x in kf if x in id_fields])
        flat = [k if isinstance(k, str) else (k[0][1] if k else None) for k in keys]
        want = sorted(f for a, f in id_fields)
        ctx.check(sorted(x for x in flat if x) == want, R + '.fields/%s/lookup-keys' % short, 'T-CARRY', body.name, 'values are looked up under %s, expected %s' % (flat, want), body.site(ubi))
        # accumulation happens for every term
        ctx.check(T.must_pass(body, some_bb, {header}, {ubi}), R + '.every-term/%s/accumulated' % short, 'T-LOOPMUST', body.name, 'a term can be skipped without being added', body.site(ubi))
    # ---- used ids
    set_l = T.access_path(body, sop, transparent=T.TRANSPARENT_NOCLONE)[1]
    ins = [c for c in body.calls if c.item == 'insert' and 'BTreeSet::<u64>::insert' in c.name and c.bb in blocks]
    ctx.check(len(ins) == len(id_fields), R + '.used/%s/inserts' % short, 'T-LOOPMUST', body.name, 'expected %d insert(s) of term ids, found %d' % (len(id_fields), len(ins)), body.site())
    got = []
    for c in ins:
        ctx.check(T.access_path(body, c.args[0], transparent=T.TRANSPARENT_NOCLONE)[1] == set_l, R + '.used/%s/into-result-set' % short, 'T-CARRY', body.name, 'id is inserted into another set', body.site(c.bb))
        kx = T.expr(body, c.args[1])
        zf = zip_field(ctx, body, nextc, kx) if short == 'Quadratic' else None
        kf = [x for x in T.expr_fields(kx) if x in id_fields]
        got.append(zf or (kf[0][1] if kf else None))
        # every id of every term: on every path of the loop that owns the insert
        own = [l for l in T.for_loops(body) if c.bb in l[4]]
        own = min(own, key=lambda l: len(l[4]))
        ctx.check(T.must_pass(body, own[2], {own[1]}, {c.bb}), R + '.used/%s/every-id' % short, 'T-LOOPMUST', body.name, 'an id can be skipped', body.site(c.bb))
    ctx.check(sorted(x for x in got if x) == sorted(f for a, f in id_fields), R + '.used/%s/ids' % short, 'T-CARRY', body.name, 'inserted ids are %s, expected %s' % (got, sorted(f for a, f in id_fields)), body.site())
    if init_kind == 'linear-part':
        s = ctx.S.backslice(body, [set_l])
        ctx.check(s.has_call(r'v1::Linear as evaluate::Evaluate>::evaluate'), R + '.used/Quadratic/includes-linear-ids', 'T-CARRY', body.name, 'ids of the linear part are not reported', body.site())


def zip_field(ctx, body, nextc, e):
    """for the multizip loop of Quadratic::evaluate: which of rows/columns/values does expr e read?"""
    idx = None
    for x in T.expr_walk(e):
        if x[0] == 'proj' and x[1][0] == 'call' and x[1][1] == 'next':
            t = [f for a, f in x[2] if a == 'tuple']
            if t: idx = t[-1]
    if idx is None: return None
    si = ctx.S.slice_operand(body, nextc.args[0])
    for c in si.call_objs:
        if 'multizip' in c.name or c.item == 'izip':
            a0 = c.args[0]
            if a0['k'] in ('copy', 'move'):
                for k2, b2, d in body.defs_of(a0['pl']['l']):
                    if k2 == 'stmt' and d['rv']['k'] == 'agg' and d['rv']['adt'] == 'tuple':
                        o = d['rv']['ops'][int(idx)]
                        fs = [f for a, f in T.access_path(body, o)[0] if a.endswith('v1::Quadratic')] or [f for a, f in ctx.S.slice_operand(body, o).fields if a.endswith('v1::Quadratic')]
                        return fs[0] if len(set(fs)) == 1 else None
    return None


def oneof_rules(ctx):
    R = 'C01.oneof'
    body = ctx.method(R + '/anchor', 'v1::Function', 'evaluate', trait='Evaluate')
    if body is None: return
    en = ctx.F.adt('v1::function::Function')
    if en is None:
        ctx.lost(R, 'enum v1::function::Function'); return
    variants = [v['name'] for v in en['variants']]
    want = {'Constant': None, 'Linear': 'v1::Linear', 'Quadratic': 'v1::Quadratic', 'Polynomial': 'v1::Polynomial'}
    ctx.check(set(variants) == set(want), R + '/variant-list', 'T-TABLE', body.name, 'oneof variants are %s, rule table knows %s' % (variants, sorted(want)), body.site())
    # outer Option test and inner enum switch
    tests = option_field_tests(body, 'v1::Function', 'function')
    ctx.check(len(tests) >= 1, R + '/option-test', 'T-BRANCHFX', body.name, 'no test on self.function', body.site())
    if not tests: return
    sb, some_t, none_t = tests[0]
    nr = T.reach_cp(body, [none_t]) - T.reach_cp(body, [some_t])
    # unset oneof => (0.0, empty set), no error
    tuples = [(bi, st) for bi, st in body.stmts() if bi in nr and st['rv']['k'] == 'agg' and st['rv']['adt'] == 'tuple' and len(st['rv']['ops']) == 2]
    okn = False
    for bi, st in tuples:
        o0, o1 = st['rv']['ops']
        s1 = T.expr(body, o1)
        if o0['k'] == 'const' and o0['v'] == '0f64' and s1[0] == 'call' and s1[1] == 'new' and 'BTreeSet' in s1[2]: okn = True
    ctx.check(okn and not (nr & body.err_exits()) and bool(T.reach_cp(body, [none_t]) & body.strict_ok_exits()), R + '/unset-is-zero', 'T-BRANCHFX', body.name,
              'an unset oneof does not evaluate to (0.0, {})', body.site())
    # one arm per variant
    sw = None
    for bi in T.reach_cp(body, [some_t]) | {sb}:
        t = body.blocks[bi]['term']
        if t['k'] == 'switch' and t['d']['k'] != 'const':
            for k2, b2, d in body.defs_of(t['d']['pl']['l']):
                if k2 == 'stmt' and d['rv']['k'] == 'discr' and any('function::Function' in a for a, f in fields_of_place(d['rv']['pl'])) or (k2 == 'stmt' and d['rv']['k'] == 'discr' and any(p.get('dc') == 'Some' for p in d['rv']['pl']['p'] if isinstance(p, dict))):
                    if bi != sb or len(t['ts']) > 1: sw = (bi, t)
    if sw is None:
        # the Option and the enum may be tested by one switch chain; look for any switch with >= 3 targets
        for bi in body.live:
            t = body.blocks[bi]['term']
            if t['k'] == 'switch' and len(t['ts']) >= 3: sw = (bi, t)
    ctx.check(sw is not None, R + '/enum-switch', 'T-BRANCHFX', body.name, 'no switch over the oneof variants', body.site())
    if sw is None: return
    bi, t = sw; m = {v: tg for v, tg in t['ts']}
    targets = {v['name']: m.get(v['discr'], t['else']) for v in en['variants']}
    for name, tg in targets.items():
        others = [x for n2, x in targets.items() if n2 != name]
        reg = T.reach_cp(body, [tg]) - set().union(*[T.reach_cp(body, [x]) for x in others if x != tg]) if others else T.reach_cp(body, [tg])
        evs = [c for c in body.calls if c.bb in reg and c.item == 'evaluate' and 'Evaluate' in (c.trait or '')]
        if want.get(name) is None:
            # constant: value is the payload itself
            okc = False
            for b2, st in body.stmts():
                if b2 in reg and st['rv']['k'] == 'agg' and st['rv']['adt'] == 'tuple' and len(st['rv']['ops']) == 2:
                    ex = T.expr(body, st['rv']['ops'][0])
                    if any(f == '0' and 'Constant' in a for a, f in T.expr_fields(ex)): okc = True
            ctx.check(okc and not evs, R + '/arm/' + name, 'T-BRANCHFX', body.name, 'Constant arm does not return its payload', body.site(tg))
        else:
            ok = len(evs) == 1 and re.search(r'<%s as evaluate::Evaluate>::evaluate' % re.escape(want[name]), evs[0].name) and T.access_path(body, evs[0].args[1])[1] == 2 \
                 and any(name in a for a, f in T.access_path(body, evs[0].args[0])[0])
            ctx.check(bool(ok), R + '/arm/' + name, 'T-BRANCHFX', body.name, '%s arm does not evaluate its %s payload at the given state' % (name, name), body.site(tg))
            errflow_calls(ctx, R + '/arm/%s/error' % name, body, evs, 'payload evaluation')
    # the value of the chosen arm is returned unchanged
    for e, k, st in body.ret_assignments():
        if k == 'ok':
            s = ctx.S.slice_operand(body, st['rv']['ops'][0])
            n = len([c for c in s.call_objs if c.item == 'evaluate'])
            ctx.check(n == 3, R + '/returns-arm-result', 'T-CARRY', body.name, 'result does not depend on all three payload evaluations (%d)' % n, body.site(e))
            arith_ops = [b2 for b2, st2 in body.stmts() if st2['rv']['k'] in ('bin', 'un') and st2['rv'].get('ty') == 'f64']
            ctx.check(not arith_ops, R + '/no-arithmetic', 'T-BRANCHFX', body.name, 'the dispatcher modifies the value', body.site(e))


def check(ctx):
    kernel_rules(ctx, 'v1::Linear', {('v1::linear::Term', 'coefficient')}, [('v1::linear::Term', 'id')], 'constant')
    kernel_rules(ctx, 'v1::Quadratic', {('v1::Quadratic', 'values')}, [('v1::Quadratic', 'rows'), ('v1::Quadratic', 'columns')], 'linear-part')
    kernel_rules(ctx, 'v1::Polynomial', {('v1::Monomial', 'coefficient')}, [('v1::Monomial', 'ids')], 'zero')
    oneof_rules(ctx)
    # coverage of the message fields by the evaluators
    for ty, ex in (('v1::Linear', ()), ('v1::Quadratic', ()), ('v1::Polynomial', ())):
        b = ctx.F.one(ty, 'evaluate', trait='Evaluate')
        cover(ctx, 'C01.cover/' + ty.split('::')[-1], b, ty, exempt=ex)
    b = ctx.F.one('v1::Linear', 'evaluate', trait='Evaluate'); cover(ctx, 'C01.cover/Term', b, 'v1::linear::Term')
    b = ctx.F.one('v1::Polynomial', 'evaluate', trait='Evaluate'); cover(ctx, 'C01.cover/Monomial', b, 'v1::Monomial')
    ctx.floor('C01.lookup', 11); ctx.floor('C01.fields', 10); ctx.floor('C01.used', 10); ctx.floor('C01.every-term', 9); ctx.floor('C01.oneof', 10); ctx.floor('C01.linear-none', 2); ctx.floor('C01.cover', 9)


def thorough(ctx):
    """crate-wide sweep: every lookup in a State's entries either errors on a missing id or is one of
    the documented 'is this variable fixed?' probes"""
    seen = {}
    for b in ctx.F.bodies.values():
        if b.kind == 'promoted': continue
        lk = state_lookups(ctx, b)
        if not lk: continue
        root = ctx.F.bodies.get(b.parent, b)
        key = (root.hdr.get('self'), root.hdr.get('item'))
        for c in lk:
            res = T.errflow(b, c.dst['l'])
            bad = [h for k, h in res if k == 'bad']
            if not bad:
                ctx.ok('C01.sweep/lookup', 'T-ERRFLOW', b.site(c.bb)); continue
            seen[key] = seen.get(key, 0) + 1
            allow = PROBE_EXEMPT.get(key)
            if allow is not None and seen[key] <= max(allow, 0) and allow > 0:
                ctx.ok('C01.sweep/probe', 'T-ERRFLOW', b.site(c.bb), exempt='documented probe in %s::%s' % key)
            else:
                ctx.bad('C01.sweep/lookup', 'T-ERRFLOW', b.name, 'state lookup whose missing entry is not an error: %s' % '; '.join(sorted(set(bad))), b.site(c.bb))
