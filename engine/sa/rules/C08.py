"""C08 — validation and the typed view (DESIGN §5 C08)."""
from .common import *
from .C05 import bound_default_table

INST = 'v1::Instance'; PI = 'v1::ParametricInstance'; DV = 'v1::DecisionVariable'; CON = 'v1::Constraint'; RC = 'v1::RemovedConstraint'


def lit(a):
    return a['v'].strip('"') if a['k'] == 'const' else None


def insert_guards(ctx, rule, body, set_ty_re, specs):
    """specs: list of (name, loop field (adt, field), key field (adt, field)).  Each loop inserts the key
    of every element into ONE shared set and a `false` result is an error."""
    ins = [c for c in body.calls if c.item == 'insert' and re.search(set_ty_re, c.name)]
    roots = set()
    for name, (ladt, lfield), key in specs:
        loops = loops_over(ctx, body, ladt, lfield)
        mine = [(lo, c) for lo in loops for c in ins if c.bb in lo[4] and key in T.access_path(body, c.args[1])[0]]
        ctx.check(len(mine) == 1, '%s/%s/insert' % (rule, name), 'T-GUARD', body.name, 'expected one `set.insert(%s.%s)` in a loop over self.%s, found %d' % (key[0].split('::')[-1], key[1], lfield, len(mine)), body.site())
        for lo, c in mine:
            ok = any(g.requires(True) for g in T.guards_from_call(body, c))
            ctx.check(ok, '%s/%s/duplicate-is-error' % (rule, name), 'T-GUARD', body.name, 'the result of insert is not tested (a duplicate id is accepted)', body.site(c.bb))
            via = {c.bb}
            for sb, sm, nn in option_field_tests(body, RC, 'constraint'):
                if sb in lo[4]: via.add(nn)
            for x in body.calls:
                if x.bb in lo[4] and x.item == 'as_ref' and 'Option::<v1::Constraint>' in x.name:
                    for sb2, m2, els2 in T.option_arms(body, x.dst['l']): via.add(m2.get(0, els2))
            ctx.check(T.must_pass(body, lo[2], {lo[1]}, via), '%s/%s/every-element' % (rule, name), 'T-LOOPMUST', body.name, 'an element can skip the uniqueness test', body.site(c.bb))
            si = ctx.S.slice_operand(body, lo[0].args[0])
            restr = sorted({x.item for x in si.call_objs if x.item in RESTRICTING and 'Iterator' in (x.trait or '')})
            ctx.check(not restr and all(body.dominates(lo[1], e) for e in body.strict_ok_exits()), '%s/%s/all-elements' % (rule, name), 'T-LOOPMUST', body.name, 'loop is restricted (%s) or does not dominate the Ok-exit' % restr, body.site(c.bb))
            roots.add(T.access_path(body, c.args[0], transparent=T.TRANSPARENT_NOCLONE)[1])
    if len(specs) > 1:
        ctx.check(len(roots) == 1, rule + '/one-shared-set', 'T-CARRY', body.name, 'the loops use different sets, so an id shared between them is not detected', body.site())
    return roots


def validate_rules(ctx):
    R = 'C08.validate'
    for ty, subs in ((INST, ('validate_decision_variable_ids', 'validate_constraint_ids')), (PI, ('validate_ids', 'validate_constraint_ids'))):
        b = ctx.method(R + '/%s/anchor' % ty.split('::')[-1], ty, 'validate')
        if b is None: continue
        for s in subs:
            mustcall(ctx, R + '/%s/calls-%s' % (ty.split('::')[-1], s), b, lambda c, s=s: c.item == s and c.path.endswith('%s>::%s' % (ty.split('::')[-1], s)), 'self.%s()?' % s)
    # ---- duplicates
    b = ctx.method('C08.dup/Instance::validate_decision_variable_ids/anchor', INST, 'validate_decision_variable_ids')
    if b is not None:
        roots = insert_guards(ctx, 'C08.dup/Instance::decision_variables', b, r'BTreeSet::<u64>::insert', [('decision_variables', (INST, 'decision_variables'), (DV, 'id'))])
        def is_subset(c): return c.item == 'is_subset' and 'BTreeSet' in c.name
        def ops(c):
            a = ctx.S.slice_operand(b, c.args[0]); d = T.access_path(b, c.args[1], transparent=T.TRANSPARENT_NOCLONE)[1]
            return a.has_call(r'impl v1::Instance>::used_decision_variable_ids') and d in roots
        guard(ctx, 'C08.defined/Instance/used-subset-of-defined', b, is_subset, True, 'used_ids.is_subset(&defined_ids)', operand_need=ops)
    b = ctx.method('C08.dup/Instance::validate_constraint_ids/anchor', INST, 'validate_constraint_ids')
    if b is not None:
        insert_guards(ctx, 'C08.dup/Instance::constraints', b, r'HashSet::<u64>::insert|BTreeSet::<u64>::insert',
                      [('active', (INST, 'constraints'), (CON, 'id')), ('removed', (INST, 'removed_constraints'), (CON, 'id'))])
    b = ctx.method('C08.dup/ParametricInstance::validate_ids/anchor', PI, 'validate_ids')
    if b is not None:
        roots = insert_guards(ctx, 'C08.dup/ParametricInstance::ids', b, r'BTreeSet::<u64>::insert',
                              [('decision_variables', (PI, 'decision_variables'), (DV, 'id')), ('parameters', (PI, 'parameters'), ('v1::Parameter', 'id'))])
        def is_subset(c): return c.item == 'is_subset' and 'BTreeSet' in c.name
        def ops(c):
            a = ctx.S.slice_operand(b, c.args[0]); d = T.access_path(b, c.args[1], transparent=T.TRANSPARENT_NOCLONE)[1]
            return a.has_call(r'impl v1::ParametricInstance>::used_ids') and d in roots
        guard(ctx, 'C08.defined/ParametricInstance/used-subset-of-defined', b, is_subset, True, 'used_ids.is_subset(&ids)', operand_need=ops)
        errflow_calls(ctx, 'C08.defined/ParametricInstance/used_ids-error', b, [c for c in b.calls if c.item == 'used_ids'], 'used_ids()')
    b = ctx.method('C08.dup/ParametricInstance::validate_constraint_ids/anchor', PI, 'validate_constraint_ids')
    if b is not None:
        insert_guards(ctx, 'C08.dup/ParametricInstance::constraints', b, r'BTreeSet::<u64>::insert|HashSet::<u64>::insert',
                      [('active', (PI, 'constraints'), (CON, 'id')), ('removed', (PI, 'removed_constraints'), (CON, 'id'))])
    # ---- used-id coverage
    b = ctx.method('C08.defined/Instance::used_decision_variable_ids/anchor', INST, 'used_decision_variable_ids')
    if b is not None:
        cover(ctx, 'C08.defined/Instance::used_ids/cover', b, INST, only=('objective', 'constraints', 'removed_constraints'))
        rs = ctx.S.backslice(b, [0])
        for f in ('objective', 'constraints', 'removed_constraints'):
            ctx.check(rs.has_field(INST, f), 'C08.defined/Instance::used_ids/returned/' + f, 'T-CARRY', b.name, 'ids used by self.%s are not part of the returned set' % f, b.site())
        for f, ty in (('constraints', CON), ('removed_constraints', RC)):
            for lo in loops_over(ctx, b, INST, f):
                if f == 'constraints' and ctx.S.slice_operand(b, lo[0].args[0]).has_field(INST, 'removed_constraints'): continue
                ext = [c for c in b.calls if c.bb in lo[4] and c.item == 'extend']
                via = {c.bb for c in ext}
                for sb, sm, nn in option_field_tests(b, RC, 'constraint'):
                    if sb in lo[4]: via.add(nn)
                ctx.check(bool(ext) and T.must_pass(b, lo[2], {lo[1]}, via), 'C08.defined/Instance::used_ids/every-%s' % f, 'T-LOOPMUST', b.name, 'an element of self.%s can be skipped' % f, b.site(lo[0].bb))
    b = ctx.method('C08.defined/ParametricInstance::used_ids/anchor', PI, 'used_ids')
    if b is not None:
        cover(ctx, 'C08.defined/ParametricInstance::used_ids/cover', b, PI, only=('objective', 'constraints'))
        rs = ctx.S.backslice(b, [0])
        for f in ('objective', 'constraints'):
            ctx.check(rs.has_field(PI, f), 'C08.defined/ParametricInstance::used_ids/returned/' + f, 'T-CARRY', b.name, 'ids used by self.%s are not part of the returned set' % f, b.site())
    # Function::used_decision_variable_ids dispatches to every payload kind
    b = ctx.method('C08.defined/Function::used_ids/anchor', 'v1::Function', 'used_decision_variable_ids')
    if b is not None:
        got = sorted({c.self_ty.split('::')[-1] for c in b.calls if c.item == 'used_decision_variable_ids' and (c.self_ty or '').startswith('v1::')})
        ctx.check(got == ['Linear', 'Polynomial', 'Quadratic'], 'C08.defined/Function::used_ids/arms', 'T-BRANCHFX', b.name, 'payload kinds consulted: %s' % got, b.site())
    for ty, need in (('v1::Linear', [('v1::linear::Term', 'id')]), ('v1::Quadratic', [('v1::Quadratic', 'rows'), ('v1::Quadratic', 'columns'), ('v1::Quadratic', 'linear')]), ('v1::Polynomial', [('v1::Monomial', 'ids')])):
        b = ctx.method('C08.defined/%s::used_ids/anchor' % ty.split('::')[-1], ty, 'used_decision_variable_ids')
        if b is not None:
            rs = ctx.S.backslice(b, [0])
            miss = [f for a, f in need if not rs.has_field(a, f)]
            ctx.check(not miss, 'C08.defined/%s::used_ids/fields' % ty.split('::')[-1], 'T-CARRY', b.name, 'id fields not reported: %s' % miss, b.site())


def enum_parse_rules(ctx):
    R = 'C08.parse.required'
    for ty, typed, name in (('v1::instance::Sense', 'instance::Sense', 'ommx.v1.instance.Sense'), ('v1::decision_variable::Kind', 'decision_variable::Kind', 'ommx.v1.decision_variable.Kind'), ('v1::Equality', 'constraint::Equality', 'ommx.v1.Equality')):
        b = ctx.method(R + '/%s/anchor' % ty.split('::')[-1], ty, 'parse', trait='Parse')
        adt = ctx.F.adt(ty)
        if b is None or adt is None: continue
        sw = None
        for bi in sorted(b.live):
            t = b.blocks[bi]['term']
            if t['k'] == 'switch' and t['d']['k'] != 'const':
                for k2, b2, d in b.defs_of(t['d']['pl']['l']):
                    if k2 == 'stmt' and d['rv']['k'] == 'discr' and d['rv']['pl']['l'] == 1: sw = (bi, t)
        ctx.check(sw is not None, R + '/%s/match' % ty.split('::')[-1], 'T-TABLE', b.name, 'no match on the enum value', b.site())
        if sw is None: continue
        bi, t = sw; m = {v: tg for v, tg in t['ts']}
        table = {}
        for v in adt['variants']:
            tg = m.get(v['discr'], t['else'])
            r = b.reach([tg])
            res = None
            for b2, st in b.stmts():
                if b2 == tg or (b2 in r and len(r) < 6):
                    if st['rv']['k'] == 'agg' and st['rv']['adt'].startswith(typed + '::'): res = 'ok:' + st['rv']['adt'].split('::')[-1]
                    if st['rv']['k'] == 'agg' and st['rv']['adt'].endswith('RawParseError::UnspecifiedEnum'):
                        res = 'err:' + (lit(st['rv']['ops'][0]) or '?')
            table[v['name']] = res
        want = {v['name']: ('err:' + name if v['name'] == 'Unspecified' else 'ok:' + v['name']) for v in adt['variants']}
        ctx.check(table == want, R + '/%s/table' % ty.split('::')[-1], 'T-TABLE', b.name, 'enum conversion table is %s, expected %s' % (table, want), b.site(), table=str(table))
    # unset oneof => UnsupportedV1Function
    b = ctx.method(R + '/Function/anchor', 'v1::Function', 'parse', trait='Parse')
    if b is not None:
        oks = [c for c in b.calls if c.item in ('ok_or', 'ok_or_else') and ('v1::Function', 'function') in T.access_path(b, c.args[0])[0]]
        okk = False
        for c in oks:
            ex = T.expr(b, c.args[1])
            okk = ex[0] == 'agg' and ex[1].endswith('RawParseError::UnsupportedV1Function')
        ctx.check(len(oks) == 1 and okk, R + '/Function/unset-oneof-is-error', 'T-ERRFLOW', b.name, 'an unset oneof is not reported as UnsupportedV1Function', b.site())
        errflow_calls(ctx, R + '/Function/unset-oneof-propagates', b, oks, 'unset oneof')
        aggs = sorted({st['rv']['adt'].split('::')[-1] for bi, st in b.stmts() if st['rv']['k'] == 'agg' and st['rv']['adt'].startswith('function::Function::')})
        ctx.check(aggs == ['Constant', 'Linear', 'Polynomial', 'Quadratic'], R + '/Function/arms', 'T-TABLE', b.name, 'typed variants produced: %s' % aggs, b.site())
    # required message fields
    for (ty, item, trait, targs), adt_, field, msg in (((('instance::Instance', 'try_from', 'TryFrom', ['v1::Instance'])), INST, 'objective', 'ommx.v1.Instance'),
                                                       ((CON, 'parse', 'Parse', None), CON, 'function', 'ommx.v1.Constraint'), ((RC, 'parse', 'Parse', None), RC, 'constraint', 'ommx.v1.RemovedConstraint')):
        b = ctx.method(R + '/%s.%s/anchor' % (adt_.split('::')[-1], field), ty, item, trait=trait, targs=targs)
        if b is None: continue
        oks = [c for c in b.calls if c.item in ('ok_or', 'ok_or_else') and (adt_, field) in T.access_path(b, c.args[0])[0]]
        okk = False
        for c in oks:
            ex = T.expr(b, c.args[1])
            if ex[0] == 'agg' and ex[1].endswith('RawParseError::MissingField'):
                fl = [x for x in ex[2] if x[0] == 'const']
                okk = any(x[1].strip('"') == field for x in fl) and any(y[0] == 'const' and y[1].strip('"') == msg for x in ex[2] for y in T.expr_walk(x))
        ctx.check(len(oks) == 1 and okk, R + '/%s.%s/missing-is-MissingField' % (adt_.split('::')[-1], field), 'T-ERRFLOW', b.name,
                  'a missing `%s` is not reported as MissingField{message: %s, field: %s}' % (field, msg, field), b.site())
        errflow_calls(ctx, R + '/%s.%s/propagates' % (adt_.split('::')[-1], field), b, oks, 'missing ' + field)
        for c in b.calls:
            if c.item in ('unwrap_or_default', 'unwrap_or', 'unwrap_or_else', 'unwrap') and (adt_, field) in T.access_path(b, c.args[0])[0]:
                ctx.bad(R + '/%s.%s/defaulted' % (adt_.split('::')[-1], field), 'T-ERRFLOW', b.name, 'missing field is defaulted by ' + c.item, b.site(c.bb))


def bound_rules(ctx):
    R = 'C08.parse.bound'
    b = ctx.method(R + '/Bound::parse/anchor', 'v1::Bound', 'parse', trait='Parse')
    if b is not None:
        news = [c for c in b.calls if c.path.endswith('Bound::new')]
        ok = len(news) == 1 and T.access_path(b, news[0].args[0])[0] == [('v1::Bound', 'lower')] and T.access_path(b, news[0].args[1])[0] == [('v1::Bound', 'upper')]
        ctx.check(ok, R + '/Bound::parse/through-new', 'T-MUSTCALL', b.name, 'v1::Bound is not converted by Bound::new(self.lower, self.upper)', b.site())
        errflow_calls(ctx, R + '/Bound::parse/error', b, news, 'Bound::new')
        ctx.check(not find_aggregates(b, 'bound::Bound'), R + '/Bound::parse/no-direct-construction', 'T-CARRY', b.name, 'Bound is constructed without validation', b.site())
    nb = ctx.method(R + '/Bound::new/anchor', 'bound::Bound', 'new')
    if nb is not None:
        chk = mustcall(ctx, R + '/Bound::new/check-first', nb, lambda c: c.item == 'check' and 'BoundError' in c.path, 'BoundError::check(lower, upper)?')
        if chk is not None:
            ok = T.strip_wrappers(T.expr(nb, chk.args[0])) == ('place', 1, []) and T.strip_wrappers(T.expr(nb, chk.args[1])) == ('place', 2, [])
            ctx.check(ok, R + '/Bound::new/check-args', 'T-CARRY', nb.name, 'check is not applied to (lower, upper)', nb.site(chk.bb))
        aggs = find_aggregates(nb, 'bound::Bound')
        okf = False
        for bi, st in aggs:
            d = dict(zip(st['rv']['fields'], st['rv']['ops']))
            okf = T.strip_wrappers(T.expr(nb, d['lower'])) == ('place', 1, []) and T.strip_wrappers(T.expr(nb, d['upper'])) == ('place', 2, [])
        ctx.check(len(aggs) == 1 and okf, R + '/Bound::new/fields', 'T-CARRY', nb.name, 'Bound { lower, upper } is not built from the arguments in order', nb.site())
    cb = ctx.method(R + '/BoundError::check/anchor', 'bound::BoundError', 'check')
    if cb is not None:
        rows = set()
        for c in cb.calls:
            if c.item == 'is_nan':
                for g in T.guards_from_call(cb, c):
                    tr = T.reach_cp(cb, [g.true_bb])
                    if (tr & cb.err_exits()) and not (tr & cb.strict_ok_exits()): rows.add(('nan', T.expr_str(T.strip_wrappers(T.expr(cb, c.args[0])))))
        for bi, st in float_cmp_sites(cb, ('Eq', 'Gt', 'Lt', 'Ge', 'Le')):
            l = T.strip_wrappers(T.expr(cb, st['rv']['ops'][0])); r = T.strip_wrappers(T.expr(cb, st['rv']['ops'][1]))
            for g in T.guards_from_local(cb, st['dst']['l'], bi):
                tr = T.reach_cp(cb, [g.true_bb])
                if (tr & cb.err_exits()) and not (tr & cb.strict_ok_exits()):
                    rs_ = T.expr_str(r, 8); rs_ = '-inf' if 'NEG_INFINITY' in str(r) else ('+inf' if 'INFINITY' in str(r) else rs_)
                    rows.add((st['rv']['op'], T.expr_str(l), rs_))
        want = {('nan', '_1'), ('nan', '_2'), ('Eq', '_1', '+inf'), ('Eq', '_2', '-inf'), ('Gt', '_1', '_2')}
        norm = set()
        for r in rows:
            if r[0] == 'Lt' and len(r) == 3: r = ('Gt', r[2], r[1])
            norm.add(r)
        ctx.check(norm == want, R + '/BoundError::check/table', 'T-TABLE', cb.name, 'rejected: %s; expected NaN(lower), NaN(upper), lower=+inf, upper=-inf, lower>upper' % sorted(norm), cb.site(), table=str(sorted(norm)))
    # C08.parse.default: Option<v1::Bound> is never defaulted through the prost Default (which is [0,0])
    for fb in ctx.F.bodies.values():
        for c in fb.calls:
            if c.item in ('unwrap_or_default', 'unwrap_or_else', 'unwrap_or') and re.search(r'Option::<&?v1::Bound>', c.name):
                ctx.bad('C08.parse.default/no-prost-default', 'T-ERRFLOW', fb.name, 'a missing v1::Bound is replaced by a default value through %s (the prost default is [0, 0])' % c.item, fb.site(c.bb))
    ctx.ok('C08.parse.default/sweep', 'T-ERRFLOW', '', bodies=len(ctx.F.bodies))
    pb = ctx.method('C08.parse.default/DecisionVariable::parse/anchor', DV, 'parse', trait='Parse')
    if pb is not None:
        tab = parse_bound_table(ctx, 'C08.parse.default/DecisionVariable::parse', pb)


def parse_bound_table(ctx, rule, b):
    """Some(b) => parsed ; None & Binary => [0,1] ; None => Bound::default()"""
    tests = option_field_tests(b, DV, 'bound')
    ctx.check(len(tests) == 1, rule + '/bound-option-test', 'T-BRANCHFX', b.name, 'expected one match on self.bound, found %d' % len(tests), b.site())
    if len(tests) != 1: return
    sb, some_t, none_t = tests[0]
    sr = T.reach_cp(b, [some_t]) - T.reach_cp(b, [none_t]); nr = T.reach_cp(b, [none_t]) - T.reach_cp(b, [some_t])
    conv = [c for c in b.calls if c.bb in sr and c.item == 'parse_as' and 'v1::Bound as parse::Parse' in c.name]
    tab = {'some': 'parsed' if conv else 'other'}
    errflow_calls(ctx, rule + '/some/error', b, conv, 'bound parse')
    news = [c for c in b.calls if c.bb in nr and c.path.endswith('Bound::new')]
    defs = [c for c in b.calls if c.bb in nr and c.item == 'default' and 'bound::Bound' in c.name]
    kinds = []
    for c in b.calls:
        if c.item in ('eq', 'ne') and re.search(r'decision_variable::Kind$', c.self_ty or ''):
            kinds.append((c, [enum_variant_of_operand(ctx, b, a) for a in c.args]))
    okbin = False
    for c, vs in kinds:
        if any(v and v.endswith('Kind::Binary') for v in vs):
            for g in T.guards_from_call(b, c):
                yes, no = (g.true_bb, g.false_bb) if c.item == 'eq' else (g.false_bb, g.true_bb)
                yr = T.reach_cp(b, [yes]) - T.reach_cp(b, [no]); nn = T.reach_cp(b, [no]) - T.reach_cp(b, [yes])
                v01 = [tuple(T.f64_const(a['v']) if a['k'] == 'const' else None for a in x.args) for x in news if x.bb in yr]
                okbin = v01 == [(0.0, 1.0)] and any(x.bb in nn for x in defs) and not any(x.bb in nn for x in news)
    tab['none-binary'] = (0.0, 1.0) if okbin else 'other'
    tab['none-other'] = 'Bound::default' if okbin else 'other'
    ctx.check(tab == {'some': 'parsed', 'none-binary': (0.0, 1.0), 'none-other': 'Bound::default'}, rule + '/table', 'T-SIBLING', b.name,
              'unset-bound table is %s; expected Some=>parsed, None+Binary=>[0,1], None=>Bound::default() as in get_bounds / TryFrom<&DecisionVariable>' % tab, b.site(), table=str(tab))


def ids_rules(ctx):
    R = 'C08.parse.ids'
    for fn, err in (('as_variable_id', 'UndefinedVariableID'), ('as_constraint_id', 'UndefinedConstraintID')):
        b = ctx.free_fn(R + '/%s/anchor' % fn, 'instance::' + fn)
        if b is None: continue
        ck = [c for c in b.calls if c.item == 'contains_key']
        ok = False
        for c in ck:
            for g in T.guards_from_call(b, c):
                ok = ok or g.requires(True)
            ctx.check(T.access_path(b, c.args[0])[1] == 1, R + '/%s/table' % fn, 'T-CARRY', b.name, 'membership is not tested in the given table', b.site(c.bb))
        agg = [st for bi, st in b.stmts() if st['rv']['k'] == 'agg' and st['rv']['adt'].endswith('RawParseError::' + err)]
        ctx.check(ok and bool(agg), R + '/%s/undefined-is-error' % fn, 'T-GUARD', b.name, 'an id that is not a key of the table is not rejected with %s' % err, b.site())
    b = ctx.method(R + '/Instance/anchor', 'instance::Instance', 'try_from', trait='TryFrom', targs=['v1::Instance'])
    if b is not None:
        av = [c for c in b.calls if c.item == 'as_variable_id']
        ok = False
        for c in av:
            lo = [l for l in T.for_loops(b) if c.bb in l[4]]
            if lo and ctx.S.slice_operand(b, lo[0][0].args[0]).has_field(INST, 'decision_variable_dependency') and lo[0][0].dst['l'] in ctx.S.slice_operand(b, c.args[1]).locals:
                ok = T.must_pass(b, lo[0][2], {lo[0][1]}, {c.bb})
                ins = [x for x in b.calls if x.bb in lo[0][4] and x.item == 'insert' and 'HashMap' in x.name]
                ctx.check(bool(ins) and c in ctx.S.slice_operand(b, ins[0].args[1]).call_objs, R + '/Instance/dependency-key-is-checked-id', 'T-CARRY', b.name, 'dependency is stored under an unchecked key', b.site(c.bb))
        ctx.check(ok, R + '/Instance/dependency-keys-checked', 'T-LOOPMUST', b.name, 'dependency keys are not checked against the defined variables', b.site())
        errflow_calls(ctx, R + '/Instance/dependency-key-error', b, av, 'as_variable_id')
    # hints
    for ty, specs in (('v1::OneHot', [('constraint_id', 'as_constraint_id', False), ('decision_variables', 'as_variable_id', True)]),
                      ('v1::Sos1', [('binary_constraint_id', 'as_constraint_id', False), ('big_m_constraint_ids', 'as_constraint_id', True), ('decision_variables', 'as_variable_id', True)])):
        b = ctx.method(R + '/%s/anchor' % ty.split('::')[-1], ty, 'parse', trait='Parse')
        if b is None: continue
        for field, helper, listy in specs:
            cs = [c for c in b.calls if c.item == helper and (ty, field) in ctx.S.slice_operand(b, c.args[1]).fields]
            ctx.check(len(cs) == 1, R + '/%s.%s/checked' % (ty.split('::')[-1], field), 'T-MUSTCALL', b.name, '%s is not checked by %s' % (field, helper), b.site())
            errflow_calls(ctx, R + '/%s.%s/error' % (ty.split('::')[-1], field), b, cs, helper)
            for c in cs:
                if listy:
                    lo = [l for l in T.for_loops(b) if c.bb in l[4]]
                    ctx.check(bool(lo) and T.must_pass(b, lo[0][2], {lo[0][1]}, {c.bb}), R + '/%s.%s/every-element' % (ty.split('::')[-1], field), 'T-LOOPMUST', b.name, 'an element can skip the check', b.site(c.bb))
                    ins = [x for x in b.calls if lo and x.bb in lo[0][4] and x.item == 'insert' and 'BTreeSet' in x.name]
                    okk = bool(ins) and any(g.requires(True) for g in T.guards_from_call(b, ins[0])) and c in ctx.S.slice_operand(b, ins[0].args[1]).call_objs
                    ctx.check(okk, R + '/%s.%s/repeated-is-error' % (ty.split('::')[-1], field), 'T-GUARD', b.name, 'a repeated id is accepted', b.site(c.bb))
                else:
                    ctx.check(all(b.dominates(c.bb, e) for e in b.strict_ok_exits()), R + '/%s.%s/dominates' % (ty.split('::')[-1], field), 'T-MUSTCALL', b.name, 'check does not dominate the Ok-exit', b.site(c.bb))
    # removed constraints against the active map and their own map; duplicates in Vec parsers
    b = ctx.method(R + '/Vec<RemovedConstraint>/anchor', 'std::vec::Vec<v1::RemovedConstraint>', 'parse', trait='Parse')
    if b is not None:
        ck = [c for c in b.calls if c.item == 'contains_key' and T.access_path(b, c.args[0])[1] == 2]
        ok1 = any(g.requires(False) for c in ck for g in T.guards_from_call(b, c))
        ctx.check(ok1, R + '/Vec<RemovedConstraint>/not-an-active-id', 'T-GUARD', b.name, 'a removed constraint sharing its id with an active one is accepted', b.site())
        ins = [c for c in b.calls if c.item == 'insert' and 'HashMap' in c.name]
        ok2 = False
        for c in ins:
            for u in [x for x in b.calls if x.item == 'is_some' and x.args and T.access_path(b, x.args[0], transparent=T.TRANSPARENT_NOCLONE)[1] == c.dst['l']]:
                ok2 = ok2 or any(g.requires(False) for g in T.guards_from_call(b, u))
        ctx.check(ok2, R + '/Vec<RemovedConstraint>/unique', 'T-GUARD', b.name, 'a repeated removed-constraint id is accepted', b.site())
    for ty, what in (('std::vec::Vec<v1::Constraint>', 'constraint'), ('std::vec::Vec<v1::DecisionVariable>', 'variable')):
        b = ctx.method(R + '/%s/anchor' % ty.split('::')[-1], ty, 'parse', trait='Parse')
        if b is None: continue
        ins = [c for c in b.calls if c.item == 'insert' and 'HashMap' in c.name]
        ok2 = False
        for c in ins:
            for u in [x for x in b.calls if x.item == 'is_some' and x.args and T.access_path(b, x.args[0], transparent=T.TRANSPARENT_NOCLONE)[1] == c.dst['l']]:
                ok2 = ok2 or any(g.requires(False) for g in T.guards_from_call(b, u))
        ctx.check(ok2, R + '/%s/unique' % ty.split('::')[-1], 'T-GUARD', b.name, 'a repeated %s id is accepted' % what, b.site())
        lo = [l for l in T.for_loops(b)]
        ctx.check(len(lo) == 1 and bool(ins) and T.must_pass(b, lo[0][2], {lo[0][1]}, {ins[0].bb}), R + '/%s/every-element' % ty.split('::')[-1], 'T-LOOPMUST', b.name, 'an element can be dropped', b.site())


def carry_rules(ctx):
    R = 'C08.parse.carry'
    specs = [
        ((CON, 'parse', 'Parse', None), 'constraint::Constraint', CON, {'id': 'id', 'function': 'function', 'equality': 'equality', 'name': 'name', 'subscripts': 'subscripts', 'parameters': 'parameters', 'description': 'description'}),
        ((RC, 'parse', 'Parse', None), 'constraint::RemovedConstraint', RC, {'constraint': 'constraint', 'removed_reason': 'removed_reason', 'removed_reason_parameters': 'removed_reason_parameters'}),
        ((DV, 'parse', 'Parse', None), 'decision_variable::DecisionVariable', DV, {'id': 'id', 'kind': 'kind', 'bound': 'bound', 'substituted_value': 'substituted_value', 'name': 'name', 'subscripts': 'subscripts', 'parameters': 'parameters', 'description': 'description'}),
        (('instance::Instance', 'try_from', 'TryFrom', ['v1::Instance']), 'instance::Instance', INST, {'sense': 'sense', 'objective': 'objective', 'decision_variables': 'decision_variables', 'constraints': 'constraints', 'removed_constraints': 'removed_constraints',
                                                                                                     'decision_variable_dependency': 'decision_variable_dependency', 'parameters': 'parameters', 'description': 'description', 'constraint_hints': 'constraint_hints'}),
    ]
    for (ty, item, trait, targs), typed, src, fmap in specs:
        b = ctx.method(R + '/%s/anchor' % typed.split('::')[-1], ty, item, trait=trait, targs=targs)
        if b is None: continue
        aggs = find_aggregates(b, typed)
        ctx.check(len(aggs) == 1, R + '/%s/aggregate' % typed.split('::')[-1], 'T-CARRY', b.name, 'expected one %s aggregate, found %d' % (typed, len(aggs)), b.site())
        fields = ctx.F.adt_fields(typed) or []
        ctx.check(set(fields) == set(fmap), R + '/%s/field-list' % typed.split('::')[-1], 'T-COVER', b.name, 'typed struct fields changed: %s' % sorted(set(fields) ^ set(fmap)), b.site())
        msg_fields = ctx.F.adt_fields(src) or []
        ctx.check(set(msg_fields) == set(fmap.values()), R + '/%s/message-field-list' % typed.split('::')[-1], 'T-COVER', b.name, 'message fields without a typed counterpart: %s' % sorted(set(msg_fields) ^ set(fmap.values())), b.site())
        for bi, st in aggs:
            for tf, mf in fmap.items():
                op = agg_field_operand(st, tf)
                if op is None: continue
                s = slice_op(ctx, b, op)
                own = sorted({f for a, f in s.fields if (a == src or a.endswith('::' + src)) })
                direct = [f for a, f in T.access_path(b, op)[0] if a == src]
                ok = s.has_field(src, mf)
                # simple copies must come from exactly the same-named field
                if direct: ok = ok and direct == [mf]
                ctx.check(ok, R + '/%s/%s' % (typed.split('::')[-1], tf), 'T-CARRY', b.name, 'typed field `%s` is not taken from message field `%s` (reads %s)' % (tf, mf, direct or own), b.site(bi))


def path_rules(ctx):
    """C08.parse.path: parse_as(ctx, message, field): `field` names the field whose value is parsed, `message` the message type"""
    R = 'C08.parse.path'
    n = 0
    for fb in ctx.F.bodies.values():
        if fb.kind == 'promoted': continue
        root = ctx.F.bodies.get(fb.parent, fb)
        self_ty = root.hdr.get('self') or ''
        targs = root.hdr.get('targs') or []
        msg_ty = None
        if (root.hdr.get('trait') or '').endswith('Parse') and self_ty.startswith('v1::'): msg_ty = self_ty
        if (root.hdr.get('trait') or '').endswith('TryFrom') and targs and targs[0].startswith('v1::'): msg_ty = targs[0]
        if msg_ty is None: continue
        want_msg = 'ommx.' + '.'.join(snake_mod(p, last=(i == len(msg_ty.split('::')) - 1)) for i, p in enumerate(msg_ty.split('::')))
        for c in fb.calls:
            is_pa = c.item == 'parse_as' and (c.trait or '').endswith('Parse')
            is_ctx = c.item == 'context' and ('ParseError' in c.path) and len(c.args) == 3
            if not (is_pa or is_ctx): continue
            fa = c.args[3] if is_pa else c.args[2]; ma = c.args[2] if is_pa else c.args[1]
            field = lit(fa)
            mexpr = T.strip_wrappers(T.expr(fb, ma)); message = mexpr[1].strip('"') if mexpr[0] == 'const' else None
            if fb.kind == 'closure':
                # message captured from the parent
                s = ctx.S.slice_operand(fb, ma)
                pass
            if field is None: continue
            if is_pa:
                fs, rootl, calls = T.access_path(fb, c.args[0])
                named = [f for a, f in fs if a == msg_ty]
                getter = [x.split('::')[-1] for x in calls if x.startswith(msg_ty + '::')]
                src = named[:1] or getter[:1]
                if fb.kind == 'closure':
                    continue     # element parse inside map(|c| c.parse_as(..)): the receiver is the closure argument
                if len(src) != 1:
                    ctx.undecided(R + '/field-literal', 'T-CONST', fb.site(c.bb), 'receiver does not name exactly one field'); continue
                n += 1
                ctx.check(src[0] == field, R + '/field-literal', 'T-CONST', fb.name, 'parse_as(.., "%s") is applied to field `%s`' % (field, src[0]), fb.site(c.bb))
                if message is not None:
                    ctx.check(message == want_msg, R + '/message-literal', 'T-CONST', fb.name, 'message literal "%s" in the %s parser, expected "%s"' % (message, msg_ty, want_msg), fb.site(c.bb))
    # element parsers inside closures (hints): literal equals the field the iterator comes from
    b = ctx.F.one('v1::ConstraintHints', 'parse', trait='Parse')
    if b is not None:
        for fld in ('one_hot_constraints', 'sos1_constraints'):
            ok = False
            for c in b.calls:
                if c.item == 'map' and 'Iterator' in (c.trait or '') and ctx.S.slice_operand(b, c.args[0]).has_field('v1::ConstraintHints', fld):
                    for cn in ctx.S.slice_operand(b, c.args[1]).closures:
                        cb = ctx.F.bodies.get(cn)
                        if cb is None: continue
                        for x in cb.calls:
                            if x.item == 'parse_as' and lit(x.args[3]) == fld: ok = True
            ctx.check(ok, R + '/hints/' + fld, 'T-CONST', b.name, 'elements of `%s` are parsed with another field name in the error path' % fld, b.site())
    ctx.floor('C08.parse.path', 12)


def snake_mod(p, last):
    return p if last else p


def check(ctx):
    validate_rules(ctx); enum_parse_rules(ctx); bound_rules(ctx); ids_rules(ctx); carry_rules(ctx); path_rules(ctx)
    ctx.floor('C08.validate', 4); ctx.floor('C08.dup', 25); ctx.floor('C08.defined', 15); ctx.floor('C08.parse.required', 12); ctx.floor('C08.parse.bound', 7)
    ctx.floor('C08.parse.ids', 20); ctx.floor('C08.parse.carry', 30); ctx.floor('C08.parse.default', 3)
