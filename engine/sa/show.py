"""debug: pretty-print bodies.  python3 -m sa.show <facts> <substring> [exact]"""
import sys
from .facts import Facts, place_str, operand_str

def show(b, out=sys.stdout):
    print('==', b.name, 'argc', b.argc, b.kind, b.hdr, file=out)
    for i in sorted(b.live):
        blk = b.blocks[i]
        for st in blk['st']:
            if 'dst' in st:
                rv = st['rv']; desc = rv['k']
                if rv['k'] == 'bin': desc = 'bin ' + rv['op']
                if rv['k'] == 'agg': desc = 'agg ' + rv['adt']
                if rv['k'] == 'un': desc = 'un ' + rv['op']
                if rv['k'] == 'cast': desc = 'cast->' + rv['to']
                if rv['k'] == 'ref': desc = 'ref' + ('mut' if rv.get('mut') else '')
                ops = ', '.join(operand_str(o) for o in rv.get('ops', []))
                if 'pl' in rv: ops = place_str(rv['pl'])
                print('  bb%d  %s = %s(%s)' % (i, place_str(st['dst']), desc, ops), file=out)
        t = blk['term']
        if t['k'] == 'call':
            print('  bb%d  %s = CALL %s(%s) -> bb%s   [L%s]' % (i, place_str(t['dst']), (t['r'] or t['f'])[:110], ', '.join(operand_str(a) for a in t['args']), t['t'], t['span']['lo']), file=out)
        elif t['k'] == 'switch':
            print('  bb%d  SWITCH %s %s else bb%s' % (i, operand_str(t['d']), t['ts'], t['else']), file=out)
        elif t['k'] in ('goto', 'drop', 'assert'):
            print('  bb%d  %s -> bb%s' % (i, t['k'], t['t']), file=out)
        else:
            print('  bb%d  %s' % (i, t['k']), file=out)

if __name__ == '__main__':
    F = Facts(sys.argv[1])
    for n, b in F.bodies.items():
        if sys.argv[2] in n:
            if len(sys.argv) > 3 and sys.argv[3] == 'exact' and n != sys.argv[2]: continue
            show(b)
