"""C05 — a Solution faithfully reports the evaluated problem (DESIGN §5 C05)."""
from .common import *
from .feas import (check_feasibility_rule, origins, PathEval, const_operand, error_propagates, absent_inserts, false_leads_to_error, enum_tests, result_kind, f64_of_operand, item_calls,
                   dominates_ok, dominates_sem, must_pass_sem, loop_must2 as loop_must, mustcall2 as mustcall, returned_struct, truth_table, canon, field_is_none, value_sources, with_renormalised, all_defs)

SOME0 = ('std::option::Option::Some', '0')
INST = 'v1::Instance'; DV = 'v1::DecisionVariable'; CON = 'v1::Constraint'; RC = 'v1::RemovedConstraint'; EC = 'v1::EvaluatedConstraint'
TOL_FEAS = 1e-6; TOL_BOUND = 1e-7


VIEW = 'norm'      # helpers unknown on the pinned tree inlined, adaptor chains as explicit loops

CONV_DV = re.compile(r"TryFrom<&('\w+ )?v1::DecisionVariable>>::try_from|<&('\w+ )?v1::DecisionVariable as std::convert::TryInto<bound::Bound>>::try_into|TryInto<bound::Bound>>::try_into")


def item_evaluations(body, lo, ty):
    """`item.evaluate(state)` of the loop items -- or, for removed constraints, RemovedConstraint::evaluate written out in the loop:
    `item.constraint.as_ref().context(..)?.evaluate(state)` (the removal fields then have to be attached in the loop, see inlined_removed_ok)"""
    ev = item_calls(body, lo, ty, 'evaluate')
    if ev or ty != RC: return ev
    out = []
    for c in body.calls:
        if c.bb in lo[4] and c.item == 'evaluate' and re.search(r'<v1::Constraint as evaluate::Evaluate>::evaluate', c.name):
            fs, root, calls = T.access_path(body, c.args[0])
            if (RC, 'constraint') in fs and lo[0].dst['l'] in ctx_free_slice_locals(body, c.args[0], lo): out.append(c)
    return out


def ctx_free_slice_locals(body, operand, lo):
    """locals on the access path of an operand (no slicer needed): is the loop item among them?"""
    seen = set(); l = operand['pl']['l'] if operand['k'] in ('copy', 'move') else None
    for _ in range(20):
        if l is None or l in seen: break
        seen.add(l)
        ds = [d for d in body.defs_of(l) if not (d[0] == 'stmt' and d[2]['dst']['p'])]
        if len(ds) != 1: break
        k, bi, d = ds[0]
        if k == 'stmt':
            rv = d['rv']
            if rv['k'] == 'use' and rv['ops'][0]['k'] in ('copy', 'move'): l = rv['ops'][0]['pl']['l']
            elif rv['k'] == 'ref': l = rv['pl']['l']
            else: break
        else:
            l = d['args'][0]['pl']['l'] if d['args'] and d['args'][0]['k'] in ('copy', 'move') else None
    return seen


def inlined_removed_ok(ctx, body, lo, ev, push):
    """RemovedConstraint::evaluate written out inside the loop: the evaluated constraint that is pushed got
    removed_reason = Some(item.removed_reason..) and removed_reason_parameters = item.removed_reason_parameters.. of THIS item before the push,
    nothing else of it was changed, and a missing inner constraint is an error.   -> list of problems"""
    probs = []
    s = ctx.S.slice_operand(body, push.args[1])
    chain = {l for l in s.locals if re.fullmatch(r'v1::EvaluatedConstraint', body.locals[l])}
    item = lo[0].dst['l']
    writes = {}
    for bi, st in body.stmts():
        if st['dst']['p'] and st['dst']['l'] in chain:
            fs = fields_of_place(st['dst'])
            writes.setdefault(fs[-1][1] if fs else '?', []).append((bi, st))
        elif st['rv']['k'] == 'ref' and st['rv'].get('mut') and st['rv']['pl']['l'] in chain and bi in lo[4]:
            probs.append('the evaluated constraint is borrowed mutably')
    for f in ('removed_reason', 'removed_reason_parameters'):
        ws = writes.pop(f, [])
        good = False
        for bi, st in ws:
            if st['rv']['k'] != 'use' or not body.dominates(bi, push.bb): continue
            ex = T.expr(body, st['rv']['ops'][0])
            from_item = (RC, f) in T.expr_fields(ex) and item in ctx.S.slice_operand(body, st['rv']['ops'][0]).locals
            if from_item and (f != 'removed_reason' or (ex[0] == 'agg' and ex[1].endswith('Option::Some'))): good = True
        if not good: probs.append('%s is not attached from the removed constraint visited' % f)
    if writes: probs.append('other fields are modified: %s' % sorted(writes))
    for c in ev:
        opt = [x for x in ctx.S.slice_operand(body, c.args[0]).call_objs if x.item == 'as_ref' and 'Option::<v1::Constraint>' in x.name]
        for o in opt:
            res = T.errflow(body, o.dst['l'])
            if any(k == 'bad' for k, h in res):
                arr, rets, complete = PathEval(ctx, body).explore(o.target, {o.dst['l']: ('d', 0, None)}) if o.target >= 0 else ({}, [], False)
                if not (complete and rets and all(result_kind(e) == 'err' for e in rets)): probs.append('a removed constraint without constraint is not an error')
    return probs


def _whole(l):
    return {'k': 'copy', 'pl': {'l': l, 'p': []}}


def carried_flags(body, lo, hs, uses):
    """holders of the flag's value that are carried through loop `lo`: bool locals with a definition outside the loop and one inside it that can
    reach a place where the holder is read on the way to the Solution (flow-aware: a later loop writing the same variable does not count)"""
    blocks = lo[4]; out = []
    for h in sorted(hs):
        if body.locals[h] != 'bool': continue
        dbs = [bi for k, bi, d in all_defs(body, h)]          # also `*flag = ..` through a `&mut` handed to an inlined helper
        inside = [bi for bi in dbs if bi in blocks]
        def reaches(bi, ub):
            return ub is None or ub < 0 or bi == ub or ub in body.reach(body.succ(bi))
        if any(bi not in blocks for bi in dbs) and any(reaches(bi, ub) for bi in inside for ub in uses.get(h, {None})): out.append(h)
    return out


def flag_step(ctx, body, cands, lo, feas_calls):
    """Induction step for the flags carried through loop `lo`.  Entered with every carried flag false they are all false when the loop comes round
    (sticky); entered with all of them true each of them then holds the verdict of an is_feasible test of this iteration.  Several flags are
    stepped together when they all start from the literal `true` (`feasible` and its snapshot `feasible_relaxed = feasible` in a fused loop);
    otherwise one by one.   -> ('ok' | 'bad' | 'unknown', why, takes: bool)"""
    nextc, header, some_bb, none_bb, blocks = lo
    tests = {c.bb for c in feas_calls if c.bb in blocks}
    def starts_true(f):
        outs = [d for k, bi, d in all_defs(body, f) if bi not in blocks and header in body.reach(body.succ(bi))]       # what the flag can hold when the loop is entered
        return bool(outs) and all('rv' in d and d['rv']['k'] == 'use' and d['rv']['ops'][0].get('v', '').replace('const ', '') == 'true' for d in outs)
    groups = [list(cands)] if len(cands) > 1 and all(starts_true(f) for f in cands) else [[f] for f in cands]
    pe = PathEval(ctx, body)
    verdict = 'ok'; why = ''; takes_all = True
    for g in groups:
        arr, rets, complete = pe.explore(some_bb, {f: ('b', False) for f in g}, stop={header})
        vals = [e.get(f) for e in arr.get(header, []) for f in g]
        if any(v is not None and v != ('b', False) for v in vals): return 'bad', 'flag is overwritten by a later constraint (once false it does not stay false)', False
        if not complete or any(v is None for v in vals): verdict = 'unknown'; why = 'value of the flag after an iteration that starts with `false` is not recognised'
        arr, rets, complete = pe.explore(some_bb, {f: ('b', True) for f in g}, stop={header})
        envs = arr.get(header, [])
        def takes(e, f):
            v = e.get(f)
            for tb in tests:
                atom = ('payload', ('tok', tb))
                if v == atom: return True
                if v is not None and v[0] == 'b' and e.get(('fact', atom)) == v: return True
            return None if v is None else False
        got = [takes(e, f) for e in envs for f in g]
        if not envs or any(x is False for x in got): return 'bad', 'while the flag is true it does not take the verdict of this iteration\'s is_feasible', False
        if not complete or any(x is None for x in got):
            takes_all = False
            if verdict == 'ok': verdict = 'unknown'; why = 'value of the flag after an iteration that starts with `true` is not recognised'
    return verdict, why, takes_all and bool(groups)


def flag_rules(ctx, body, sol, sbi, loops, feas_calls):
    """Solution.feasible_relaxed == AND of is_feasible over the active constraints, Solution.feasible == that AND
    the same over the removed ones.  Decided per loop as an induction step with the path evaluator (the flag is
    sticky-false and otherwise takes this item's verdict), independent of how the update is written:
        if f { f = x? }   ==   f = f && x?   ==   f &= x?   ==   let ok = x?; if f { f = ok }   ==   if f && !x? { f = false }
    and of whether each list has its own flag or one running flag is snapshotted (`feasible_relaxed = feasible` while the active constraints are visited)."""
    R = 'C05'
    def flag_local_of(field):
        op = agg_field_operand(sol, field)
        if op is None or op['k'] not in ('copy', 'move'): return None, None
        l = op['pl']['l']
        for k, bi, d in body.defs_of(l):
            if k == 'stmt' and d['rv']['k'] == 'agg' and d['rv']['adt'].endswith('Option::Some'):
                o = d['rv']['ops'][0]
                if o['k'] in ('copy', 'move'): l = o['pl']['l']
        return l, op
    all_loops = body.loops()
    holders = {}; steps = {}
    def step(field, fld):
        if (field, fld) not in steps:
            hs, uses = holders[field]
            cands = carried_flags(body, loops[fld], hs, uses)
            steps[(field, fld)] = (cands,) + (flag_step(ctx, body, cands, loops[fld], feas_calls) if cands else ('none', '', False))
        return steps[(field, fld)]
    for field, need, forbid in (('feasible_relaxed', ['constraints'], ['removed_constraints']), ('feasible', ['constraints', 'removed_constraints'], [])):
        l, op = flag_local_of(field)
        if l is None:
            ctx.bad(R + '.flags/%s/operand' % field, 'T-CARRY', body.name, 'Solution.%s is not fed by a local' % field, body.site(sbi)); continue
        # where the value comes from, flow-aware (what is read at the Solution literal): `true` before the loops; inside them only `false` or an is_feasible verdict
        uses = {}
        hs, leaves = origins(body, _whole(l), at_bb=sbi, uses=uses); ctx.counters['slices'] += 1
        holders[field] = (hs, uses)
        # the lists whose is_feasible verdicts reach the flag: by data (a verdict is among the sources) ...
        srcs = set()
        for kind, bi, obj in leaves:
            if kind == 'call' and obj in feas_calls:
                rs = ctx.S.slice_operand(body, obj.args[0])
                for f in ('constraints', 'removed_constraints'):
                    if rs.has_field(INST, f): srcs.add(f)
        # ... or by control: `if flag && !c.is_feasible(..)? { flag = false }` -- no data flows from the verdict into the flag, but an iteration
        # entered with the flag true leaves it equal to this iteration's verdict (the induction step below)
        for fld_ in loops:
            if fld_ not in srcs and step(field, fld_)[3]: srcs.add(fld_)
        ctx.check(set(need) <= srcs, R + '.flags/%s/depends-on' % field, 'T-CARRY', body.name,
                  'Solution.%s does not depend on is_feasible of %s (depends on %s)' % (field, sorted(set(need) - srcs), sorted(srcs)), body.site(sbi))
        ctx.check(not (set(forbid) & srcs), R + '.flags/%s/independent-of' % field, 'T-CARRY', body.name,
                  'Solution.%s depends on is_feasible of %s' % (field, sorted(set(forbid) & srcs)), body.site(sbi))
        init_true = False; probs = []
        for kind, bi, obj in leaves:
            in_loop = any(bi in blocks for blocks in all_loops.values())
            if kind == 'const' and obj.replace('const ', '') == 'true':
                init_true = True
                if in_loop: probs.append(('T-CONST', 'flag is reset to true inside a loop', bi))
            elif kind == 'const' and obj.replace('const ', '') == 'false':
                if not any(bi in lo[4] for lo in loops.values()): probs.append(('T-CONST', 'flag is assigned constant false outside the evaluation loops', bi))
            elif kind == 'const': probs.append(('T-CONST', 'flag is assigned constant %s' % obj, bi))
            elif kind == 'call' and obj in feas_calls: pass
            elif kind == 'call': probs.append(('T-CARRY', 'flag is assigned from something other than is_feasible: %s' % obj.name[:80], bi))
            else: probs.append(('T-CARRY', 'unexpected flag computation: %s' % (obj,), bi))
        for tpl, msg, bi in probs: ctx.bad(R + '.flags/%s/defs' % field, tpl, body.name, msg, body.site(bi))
        if not probs: ctx.ok(R + '.flags/%s/defs' % field, 'T-CARRY', body.site(sbi))
        ctx.check(init_true, R + '.flags/%s/starts-true' % field, 'T-CONST', body.name, 'flag does not start as true', body.site())
    # ---- induction step, one per list
    for fld, field in (('constraints', 'feasible_relaxed'), ('removed_constraints', 'feasible')):
        lo = loops.get(fld); rule = R + '.flags/%s/sticky' % field
        if lo is None or field not in holders: continue
        nextc = lo[0]
        cands, verdict, why, takes_all = step(field, fld)
        if not cands:
            ctx.bad(rule, 'T-BRANCHFX', body.name, 'no flag is carried through the loop over self.%s' % fld, body.site(nextc.bb)); continue
        if verdict == 'ok': ctx.ok(rule, 'T-BRANCHFX', body.site(nextc.bb), flag=cands)
        elif verdict == 'bad': ctx.bad(rule, 'T-BRANCHFX', body.name, why, body.site(nextc.bb))
        else:
            # weaker condition kept: depends-on / independent-of / defs above
            ctx.undecided(rule, 'T-BRANCHFX', body.site(nextc.bb), why); ctx.ok(rule + '~slice', 'T-BRANCHFX', body.site(nextc.bb))
    in_loops = [c for c in feas_calls if any(c.bb in lo[4] for lo in loops.values())]
    ctx.check(bool(feas_calls) and len(in_loops) == len(feas_calls), R + '.flags/tests-in-loops', 'T-LOOPMUST', body.name, 'an is_feasible test happens outside the two evaluation loops', body.site())
    for c in feas_calls:
        const_operand(ctx, R + '.flags/tolerance', body, c, 1, TOL_FEAS, 'feasibility tolerance', tol=1e-9)
        inloop = [f for f, lo in loops.items() if c.bb in lo[4]]
        if inloop:
            rs = ctx.S.slice_operand(body, c.args[0])
            evs = [x for x in rs.call_objs if x.item == 'evaluate' and x.bb in loops[inloop[0]][4]]
            ctx.check(bool(evs), R + '.flags/tests-this-iteration', 'T-CARRY', body.name, 'is_feasible is not applied to the constraint evaluated in this iteration', body.site(c.bb))


def option_map_pairs(ctx, body, lo):
    """`v.substituted_value.map(|x| (v.id, x))` on the item v of loop `lo` -- the combinator form of
    `match v.substituted_value { Some(x) => Some((v.id, x)), None => None }`: calls whose result is Some((v.id, x)) exactly when the
    variable has a substituted value x"""
    item = lo[0].dst['l']; out = []
    for m in body.calls:
        if m.bb not in lo[4] or m.item != 'map' or not re.search(r'option::Option::<.*>::map::<', m.name) or len(m.args) != 2: continue
        root, fs = canon(body, m.args[0])
        if root != item or not fs or fs[-1] != (DV, 'substituted_value'): continue
        cl = m.args[1]
        if cl['k'] not in ('copy', 'move') or cl['pl']['p']: continue
        cdefs = [d for k, bi, d in body.defs_of(cl['pl']['l']) if k == 'stmt' and d['rv']['k'] == 'agg' and d['rv']['adt'].startswith('closure:')]
        if len(cdefs) != 1: continue
        cb = ctx.F.bodies.get(cdefs[0]['rv']['adt'][8:])
        caps = cdefs[0]['rv']['ops']
        if cb is None or len(caps) != 1 or canon(body, caps[0])[0] != item: continue
        rets = [rs for e, k, rs in cb.ret_assignments() if k == 'val' and rs['rv']['k'] == 'agg' and rs['rv']['adt'] == 'tuple' and len(rs['rv']['ops']) == 2]
        if len(rets) != 1 or len(cb.ret_assignments()) != 1: continue
        ke = T.expr(cb, rets[0]['rv']['ops'][0]); ve = T.strip_wrappers(T.expr(cb, rets[0]['rv']['ops'][1]))
        if ke[0] == 'place' and ke[1] == 1 and ke[2][-1:] == [(DV, 'id')] and ve == ('place', 2, []): out.append(m)
    return out


def is_given_state(body, operand):
    """the operand is (a reference to) the function's own `state` parameter itself -- not a clone of it, which may have been completed
    with fixed / dependent / default values in the meantime (seed C05-9: the objective evaluated on the completed state)"""
    fs, root, calls = T.access_path(body, operand, transparent=T.TRANSPARENT_NOCLONE)
    return root == 2 and not fs


def some_arms(body, adt, field, blocks):
    """targets taken when Option field adt.field is Some, for every test of it inside `blocks`: a `match` / `if let` on the Option (variant 1 = Some) or the `?` applied to it
    (`v.substituted_value?` in a closure returning Option: the test is on the ControlFlow of Try::branch, variant 0 = Continue = Some)"""
    out = []
    for sb, v1, v0 in option_field_tests(body, adt, field):
        if sb not in blocks: continue
        dl = body.blocks[sb]['term']['d']['pl']['l']
        tested = [d['rv']['pl']['l'] for k, bb, d in body.defs_of(dl) if k == 'stmt' and d['rv']['k'] == 'discr']
        out.append(v0 if tested and 'ControlFlow<' in body.locals[tested[0]] else v1)
    return out


def solution_rules(ctx, body):
    R = 'C05'
    # ---------------- bound check
    cb = mustcall(ctx, R + '.bound/check_bound-dominates', body, lambda c: c.item == 'check_bound' and c.path.endswith('Instance>::check_bound'), 'self.check_bound(state, 1e-7)')
    if cb is not None:
        const_operand(ctx, R + '.bound/tolerance', body, cb, 2, TOL_BOUND, 'bound tolerance', tol=1e-9)
        ctx.check(T.access_path(body, cb.args[0])[1] == 1 and T.access_path(body, cb.args[1])[1] == 2, R + '.bound/args', 'T-CARRY', body.name, 'check_bound is not applied to (self, state)', body.site(cb.bb))
        # it must come before anything is evaluated
        evs = [c for c in body.calls if c.item == 'evaluate' and 'Evaluate' in (c.trait or '')]
        ctx.check(all(dominates_sem(ctx, body, cb.bb, c.bb) for c in evs), R + '.bound/first', 'T-GUARD', body.name, 'an evaluation happens before the bound check', body.site(cb.bb))
    # ---------------- coverage of the message
    cover(ctx, R + '.cover', body, INST, exempt=('description', 'sense', 'parameters', 'constraint_hints'))
    # ---------------- the Solution aggregate
    # the Solution that is returned, field by field (one literal, `..base` update syntax or `s.field = x` after construction)
    sv = returned_struct(ctx, body, 'v1::Solution')
    if sv is None:
        ctx.bad(R + '.solution/aggregate', 'ANCHOR', body.name, 'the v1::Solution returned on success is not one recognisable value'); return
    sbi, sol = sv.where, sv.st()
    ctx.check(dominates_ok(ctx, body, sbi), R + '.solution/on-every-success-path', 'T-MUSTCALL', body.name, 'Solution aggregate does not dominate the Ok-exit', body.site(sbi))
    # ---------------- both lists: evaluate every element, push it exactly once
    pushes = [c for c in body.calls if c.item == 'push' and re.search(r'Vec::<(v1::EvaluatedConstraint|T)>::push', c.name) and 'EvaluatedConstraint' in body.locals[c.args[0]['pl']['l']] + c.name]
    feas_calls = [c for c in body.calls if c.item == 'is_feasible' and c.path.endswith('EvaluatedConstraint>::is_feasible')]
    loops = {}
    for field, ty in (('constraints', CON), ('removed_constraints', RC)):
        ls = [l for l in loops_over(ctx, body, INST, field) if item_evaluations(body, l, ty)]
        ctx.check(len(ls) >= 1, R + '.lists/%s/loop' % field, 'T-LOOPMUST', body.name, 'no loop over self.%s that evaluates its items' % field, body.site())
        if not ls: continue
        lo = ls[0]; loops[field] = lo
        nextc, header, some_bb, none_bb, blocks = lo
        ev = item_evaluations(body, lo, ty)
        for c in ev:
            ctx.check(nextc.dst['l'] in ctx.S.slice_operand(body, c.args[0]).locals and is_given_state(body, c.args[1]), R + '.lists/%s/evaluate-item-at-state' % field, 'T-CARRY', body.name,
                      'evaluate is not applied to (loop item, state)', body.site(c.bb))
            error_propagates(ctx, R + '.lists/%s/error-propagates' % field, body, [c], 'constraint evaluation')
        loop_must(ctx, R + '.lists/%s/evaluate-every' % field, body, lo, lambda c: c in ev, 'evaluate')
        ps = [c for c in pushes if c.bb in blocks]
        # at most once: no second push is reachable from a push without coming round the loop
        twice = [c for c in ps if c.target >= 0 and any(q.bb in body.reach([c.target], stop={header}) for q in ps)]
        ctx.check(bool(ps) and not twice, R + '.lists/%s/one-push' % field, 'T-LOOPMUST', body.name, 'an evaluated constraint is pushed %s per iteration' % ('twice' if twice else 'never'), body.site(nextc.bb))
        loop_must(ctx, R + '.lists/%s/push-every' % field, body, lo, lambda c: c in ps, 'evaluated_constraints.push')
        for c in ps:
            s = ctx.S.slice_operand(body, c.args[1])
            inlined = ty == RC and bool(ev) and not item_calls(body, lo, ty, 'evaluate')
            # (written out in the loop, the removal reason / parameters of the item are cloned into the result: those clones are not a copy of the result)
            clones = [x for x in s.call_objs if x.item == 'clone' and not (inlined and x.args and any(a == RC and f in ('removed_reason', 'removed_reason_parameters') for a, f in T.expr_fields(T.expr(body, x.args[0]))))]
            ctx.check(any(e in s.call_objs for e in ev) and not clones, R + '.lists/%s/push-is-result' % field, 'T-CARRY', body.name, 'pushed value is not the evaluation result', body.site(c.bb))
            # the pushed element is not modified between evaluation and push
            chain = {l for l in s.locals if re.fullmatch(r'v1::EvaluatedConstraint', body.locals[l])}
            touched = [body.site(bi) for bi, st in body.stmts() if (st['rv']['k'] == 'ref' and st['rv'].get('mut') and st['rv']['pl']['l'] in chain) or (st['dst']['p'] and st['dst']['l'] in chain)]
            if ty == RC and ev and not item_calls(body, lo, ty, 'evaluate'):
                # RemovedConstraint::evaluate written out in the loop: the only modification is the one that function itself makes
                probs = inlined_removed_ok(ctx, body, lo, ev, c)
                ctx.check(not probs, R + '.lists/%s/push-unmodified' % field, 'T-CARRY', body.name, 'removed constraint evaluated in place: %s' % '; '.join(probs), body.site(c.bb))
            else:
                ctx.check(not touched, R + '.lists/%s/push-unmodified' % field, 'T-CARRY', body.name, 'evaluated constraint is modified before it is pushed (%s)' % touched, body.site(c.bb))
        ctx.check(dominates_ok(ctx, body, header), R + '.lists/%s/dominates' % field, 'T-MUSTCALL', body.name, 'loop does not dominate the Ok-exit', body.site(nextc.bb))
    stray = [c for c in pushes if not any(c.bb in lo[4] for lo in loops.values())]
    ctx.check(bool(pushes) and not stray, R + '.lists/no-other-push', 'T-LOOPMUST', body.name, 'the evaluated list is also pushed to outside the two evaluation loops (%d)' % len(stray), body.site(stray[0].bb) if stray else body.site())
    ec = carry_field(ctx, R + '.lists/solution-field', body, sol, 'evaluated_constraints', need_fields=[(INST, 'constraints'), (INST, 'removed_constraints')], site=body.site(sbi))
    if ec is not None:
        ctx.check(all(p in ec.call_objs for p in pushes), R + '.lists/solution-field-is-the-list', 'T-CARRY', body.name, 'Solution.evaluated_constraints is not the list both loops push to', body.site(sbi))
    # ---------------- flags
    flag_rules(ctx, body, sol, sbi, loops, feas_calls)
    # ---------------- objective
    oop = agg_field_operand(sol, 'objective')
    ex = T.expr(body, oop, depth=14)
    okobj = False
    for x in T.expr_walk(ex):
        if x[0] == 'call' and x[1] == 'evaluate' and re.search(r'<v1::Function as evaluate::Evaluate>::evaluate', x[2]):
            oc = [c for c in body.calls if len(x) > 4 and c.bb == x[4]]
            if T.expr_has_call(x[3][0], 'objective') and oc and is_given_state(body, oc[0].args[1]): okobj = True
    fs = [f for a, f in T.own_fields(ex) if a == 'tuple']
    ctx.check(okobj and fs[-1:] == ['0'], R + '.objective/is-objective-value', 'T-CARRY', body.name, 'Solution.objective is not `.0` of self.objective().evaluate(state): %s' % T.expr_str(ex), body.site(sbi))
    objev = [c for c in body.calls if c.item == 'evaluate' and re.search(r'<v1::Function as evaluate::Evaluate>::evaluate', c.name)]
    error_propagates(ctx, R + '.objective/error-propagates', body, objev, 'objective evaluation')
    # ---------------- reported state
    carry_field(ctx, R + '.state/decision_variables', body, sol, 'decision_variables', need_fields=[(INST, 'decision_variables')], site=body.site(sbi))
    st = carry_field(ctx, R + '.state/field', body, sol, 'state', need_params=[2], site=body.site(sbi))
    ed = mustcall(ctx, R + '.state/eval_dependencies', body, lambda c: c.item == 'eval_dependencies', 'eval_dependencies(&self.decision_variable_dependency, &mut state)')
    if ed is not None and st is not None:
        ctx.check(ctx.S.slice_operand(body, ed.args[0]).has_field(INST, 'decision_variable_dependency'), R + '.state/eval_dependencies/map', 'T-CARRY', body.name, 'eval_dependencies is not given the dependency map', body.site(ed.bb))
        ctx.check(ed in st.call_objs, R + '.state/eval_dependencies/same-state', 'T-CARRY', body.name, 'the reported state is not the one completed by eval_dependencies', body.site(ed.bb))
    # substituted values: for every variable with a fixed value, state[v.id] = that value, before the dependencies are evaluated
    dvl = loops_over(ctx, body, INST, 'decision_variables')
    ins = [c for c in body.calls if c.item == 'insert' and re.search(r'HashMap::<(u64, f64|K, V)>::insert', c.name) and len(c.args) == 3]
    sub = None          # (how, loop, insert)
    for lo in dvl:
        for c in ins:
            if c.bb not in lo[4]: continue
            kf = T.access_path(body, c.args[1])[0]; vex = T.expr(body, c.args[2])
            # every source of the key is `v.id`, every source of the value the payload of `v.substituted_value`, of the variable visited
            # (followed through all definitions, tuples and Some(..): pairs built by a match, a spliced filter_map / Option::map closure, ...)
            ksrc = value_sources(body, c.args[1]); vsrc = value_sources(body, c.args[2])
            item = lo[0].dst['l']
            def is_field(leaf, f):
                kind, bb, obj, pending = leaf
                return kind == 'place' and obj[0] in ('place', 'proj') and T.own_fields(obj)[-1:] == [(DV, f)] \
                    and any((x[0] == 'call' and len(x) > 4 and x[4] == lo[0].bb) or (x[0] in ('place', 'local') and x[1] == item) for x in T.expr_walk(obj))
            paired = bool(ksrc) and bool(vsrc) and all(is_field(l, 'id') and l[3] == [] for l in ksrc) and all(is_field(l, 'substituted_value') and l[3] == ['ok'] for l in vsrc)
            if paired and not ((DV, 'id') in kf and any(f == 'substituted_value' for a, f in T.expr_fields(vex))):
                arms = some_arms(body, DV, 'substituted_value', lo[4])
                if arms and all(must_pass_sem(ctx, body, a, {lo[1]}, {c.bb}) for a in arms): sub = ('precise', lo, c)
                elif sub is None or sub[0] == 'slice': sub = ('skips', lo, c)
                continue
            if (DV, 'id') in kf and any(f == 'substituted_value' for a, f in T.expr_fields(vex)):
                # the pairing (v.id, v.substituted_value) is visible here: then it is decided here.
                # On the Some arm, every iteration with a substituted value reaches the insert
                arms = some_arms(body, DV, 'substituted_value', lo[4])
                if arms and all(must_pass_sem(ctx, body, a, {lo[1]}, {c.bb}) for a in arms): sub = ('precise', lo, c)
                elif sub is None or sub[0] == 'slice': sub = ('skips', lo, c)
            elif any(canon(body, c.args[1]) == (m.dst['l'], (SOME0, ('tuple', '0'))) and canon(body, c.args[2]) == (m.dst['l'], (SOME0, ('tuple', '1')))
                     and all(must_pass_sem(ctx, body, mm.get(1, els), {lo[1]}, {c.bb}) for sb, mm, els in T.option_arms(body, m.dst['l'])) and T.option_arms(body, m.dst['l'])
                     for m in option_map_pairs(ctx, body, lo)):
                sub = ('precise', lo, c)          # the pairs come from `v.substituted_value.map(|x| (v.id, x))`
            elif sub is None:
                # weaker: key and value of the insert derive from v.id / v.substituted_value of the variables iterated
                # (the pairing happens in a closure or a binding the access path cannot follow)
                ks = ctx.S.slice_operand(body, c.args[1]); vs = ctx.S.slice_operand(body, c.args[2])
                if ks.has_field(DV, 'id') and vs.has_field(DV, 'substituted_value') and not vs.has_call(r'nearest_to_zero'): sub = ('slice', lo, c)
    rule = R + '.state/substituted/inserted'
    if sub is None:
        ctx.bad(rule, 'T-BRANCHFX', body.name, 'previously fixed values (substituted_value) are not inserted into the reported state', body.site())
    else:
        how, lo, c = sub
        if how == 'precise': ctx.ok(rule, 'T-BRANCHFX', body.site(c.bb))
        elif how == 'skips': ctx.bad(rule, 'T-BRANCHFX', body.name, 'a variable with a substituted value can skip the insert into the reported state', body.site(c.bb))
        else:
            ctx.undecided(rule, 'T-BRANCHFX', body.site(c.bb), 'the (id, substituted_value) pairs reach the insert through an adaptor / binding that is not followed step by step; decided on the slice only')
            ctx.ok(rule + '~slice', 'T-BRANCHFX', body.site(c.bb))
        ctx.check(st is not None and c in st.call_objs, R + '.state/substituted/same-state', 'T-CARRY', body.name, 'substituted values are inserted into another map', body.site(c.bb))
        if ed is not None:
            ctx.check(dominates_sem(ctx, body, lo[1], ed.bb) and ed.bb not in lo[4], R + '.state/substituted/before-dependencies', 'T-MUSTCALL', body.name, 'substituted values are inserted after eval_dependencies', body.site(c.bb))
    # ids the state still lacks are filled with nearest_to_zero of the variable's own bound -- only if absent
    fill = None
    for lo in dvl:
        for a in absent_inserts(ctx, body, lo[4]):
            c = a['call']
            vex = T.expr(body, a['value'], depth=14)
            ntz = [x for x in T.expr_walk(vex) if x[0] == 'call' and x[1] == 'nearest_to_zero']
            tb = [x for x in T.expr_walk(vex) if x[0] == 'call' and CONV_DV.search(x[2])]
            keyed = (DV, 'id') in T.access_path(body, a['key'])[0] and lo[0].dst['l'] in ctx.S.slice_operand(body, a['key']).locals
            if a['how'] == 'contains_key':
                keyed = keyed and (DV, 'id') in T.access_path(body, a['test'].args[1])[0] and lo[0].dst['l'] in ctx.S.slice_operand(body, a['test'].args[1]).locals
            if ntz and tb and keyed and lo[0].dst['l'] in ctx.S.slice_operand(body, a['value']).locals: fill = (lo, c)
    if fill is not None:
        lo, c = fill
        ctx.check(st is not None and c in st.call_objs, R + '.state/fill/same-state', 'T-CARRY', body.name, 'irrelevant variables are filled into another map', body.site(c.bb))
        if ed is not None:
            ctx.check(dominates_sem(ctx, body, ed.bb, lo[1]), R + '.state/fill/after-dependencies', 'T-MUSTCALL', body.name, 'fill happens before dependencies are evaluated', body.site(c.bb))
        # a value that IS present is never written in the completion loop: only the absent side inserts (seed C06-18: an `Occupied` arm clamping given values)
        others = [x for x in body.calls if x.bb in lo[4] and x is not c and x.item != 'entry' and st is not None and x in st.call_objs
                  and (T.MUT_CALL.search(x.name) or re.search(r'OccupiedEntry(::)?<.*>::(insert|get_mut|into_mut|remove|remove_entry)', x.name) or re.search(r'HashMap::<.*>::(get_mut|values_mut|iter_mut)', x.name))]
        ctx.check(not others, R + '.state/fill/present-values-untouched', 'T-BRANCHFX', body.name, 'the completion loop also writes entries the state already has: %s' % [x.name[:70] for x in others][:2], body.site(others[0].bb) if others else body.site(c.bb))
        ctx.check(dominates_ok(ctx, body, lo[1]), R + '.state/fill/dominates', 'T-MUSTCALL', body.name, 'fill loop does not dominate the Ok-exit', body.site(c.bb))
    ctx.check(fill is not None, R + '.state/fill/nearest_to_zero', 'T-BRANCHFX', body.name, 'unused variables are not completed (only where the state has no value) with Bound::nearest_to_zero of their own bound', body.site())
    tbs = [c for c in body.calls if CONV_DV.search(c.name)]
    error_propagates(ctx, R + '.state/fill/bound-error', body, tbs, 'bound conversion')


def contains_shape_rule(ctx, R, cb):
    """structural fall-back of C05.bound/contains (used when the body cannot be interpreted)"""
    cmps = [(bi, st) for bi, st in float_cmp_sites(cb)]
    shapes = []
    for bi, st in cmps:
        l = T.expr(cb, st['rv']['ops'][0]); r = T.expr(cb, st['rv']['ops'][1])
        shapes.append((st['rv']['op'], T.expr_str(l), T.expr_str(r)))
    want = {('Le', '(_1.lower Sub _3)', '_2'), ('Le', '_2', '(_1.upper Add _3)')}
    norm = set()
    for op, l, r in shapes:
        if op == 'Ge': op, l, r = 'Le', r, l
        norm.add((op, l, r))
    ctx.check(norm == want, R + '/contains/shape', 'T-BRANCHFX', cb.name, 'contains is not `lower - atol <= v && v <= upper + atol`: %s' % sorted(shapes), cb.site(), shape=sorted(shapes))
    oks = []
    for bi, st in cmps:
        for g in T.guards_from_local(cb, st['dst']['l'], bi):
            fr = T.reach_cp(cb, [g.false_bb]) if g.false_bb is not None else set()
            oks.append(any(b2 in fr and s2['dst']['l'] == 0 and s2['rv']['k'] == 'use' and s2['rv']['ops'][0].get('v') == 'false' for b2, s2 in cb.stmts()))
    ctx.check(len(cmps) == 2 and (not oks or oks[0]), R + '/contains/conjunction', 'T-BRANCHFX', cb.name, 'the two comparisons are not combined with &&', cb.site())


def check_bound_rules(ctx):
    R = 'C05.bound'
    b = ctx.method(R + '/check_bound/anchor', INST, 'check_bound')
    if b is None: return
    # the bounds the state is checked against are those of the unset-bound table for EVERY variable: `self.get_bounds()?`, or the same table built in place
    # (a loop over self.decision_variables inserting, for every variable, under its id, the bound the three-way case split / Bound::try_from(v) gives)
    gbs = [c for c in b.calls if c.item == 'get_bounds']
    gb = None; table_ins = []
    if gbs:
        gb = mustcall(ctx, R + '/check_bound/get_bounds', b, lambda c: c.item == 'get_bounds', 'self.get_bounds()?')
    else:
        tfb = ctx.F.one('bound::Bound', 'try_from', 'TryFrom', ["&v1::DecisionVariable"])
        tab, ntests, conv = _unset_bound_table(ctx, b)
        if ntests == 0 and tfb is not None and any(CONV_DV.search(c.name) for c in b.calls): tab = _unset_bound_table(ctx, tfb)[0]; conv = [c for c in b.calls if CONV_DV.search(c.name)]
        want = {'some': 'converted', 'none-binary': (0.0, 1.0), 'none-other': 'Bound::default'}
        why = 'no self.get_bounds()? and no equivalent table built in place'
        for lo in loops_over(ctx, b, INST, 'decision_variables'):
            ins = [c for c in b.calls if c.bb in lo[4] and c.item == 'insert' and re.search(r'(HashMap|BTreeMap)::<', c.name) and len(c.args) == 3]
            if not ins: continue
            keyed = all((DV, 'id') in T.access_path(b, c.args[1])[0] and lo[0].dst['l'] in ctx.S.slice_operand(b, c.args[1]).locals for c in ins)
            every = must_pass_sem(ctx, b, lo[2], {lo[1]}, {c.bb for c in ins}) and not ctx.S.slice_operand(b, lo[0].args[0]).has_call(r'Iterator>::(take|skip|filter|step_by|take_while|skip_while)')
            errs_ok = True
            for c in conv:
                res = T.errflow(b, c.dst['l'])
                if any(k == 'bad' for k, h in res):
                    arr, rets, complete = PathEval(ctx, b).explore(c.target, {c.dst['l']: ('d', 1, None)}) if c.target >= 0 else ({}, [], False)
                    errs_ok = errs_ok and complete and bool(rets) and all(result_kind(e) == 'err' for e in rets)
            if tab == want and keyed and every and errs_ok and dominates_ok(ctx, b, lo[1]): table_ins = ins
            else: why = 'the bounds built in place are not the unset-bound table for every variable (table %s, keyed %s, every %s, errors %s)' % (tab, keyed, every, errs_ok)
        ctx.check(bool(table_ins), R + '/check_bound/get_bounds', 'T-MUSTCALL', b.name, why, b.site())
    # every entry of the state is visited; inside, the value is tested against the bound stored under the entry's id
    loops = [lo for lo in T.for_loops(b) if ctx.S.slice_operand(b, lo[0].args[0]).has_field('v1::State', 'entries')]
    ctx.check(bool(loops), R + '/check_bound/loop', 'T-LOOPMUST', b.name, 'no loop over state.entries', b.site())
    tests = [(lo, c) for lo in loops for c in b.calls if c.bb in lo[4] and c.item == 'contains' and c.path.endswith('Bound::contains')]
    ctx.check(bool(tests) or not loops, R + '/check_bound/contains', 'T-GUARD', b.name, 'no Bound::contains test inside the loop over state.entries', b.site(loops[0][0].bb) if loops else b.site())
    for lo, c in tests:
        nextc, header, some_bb, none_bb, blocks = lo
        # `if !contains { bail! }`  ==  `ensure!(contains)`  ==  find / find_map(.. (!contains).then_some(..)) + `match Some(..) => Err`:
        # decided on paths: a `false` verdict ends in an error on every path, a `true` verdict does not
        okg = any(g.requires(True) for g in T.guards_from_call(b, c))
        if not okg: okg = false_leads_to_error(ctx, b, c, False) is True and false_leads_to_error(ctx, b, c, True) is False
        ctx.check(okg, R + '/check_bound/violation-is-error', 'T-GUARD', b.name, 'a value outside its bound does not lead to an error', b.site(c.bb))
        ctx.check(nextc.dst['l'] in ctx.S.slice_operand(b, c.args[1]).locals, R + '/check_bound/value', 'T-CARRY', b.name, 'contains() is not applied to the state value', b.site(c.bb))
        ctx.check(T.strip_wrappers(T.expr(b, c.args[2])) == ('place', 3, []), R + '/check_bound/atol', 'T-CARRY', b.name, 'contains() does not receive the given tolerance', b.site(c.bb))
        rs = ctx.S.slice_operand(b, c.args[0])
        gets = [x for x in rs.call_objs if x.item == 'get' and 'HashMap' in x.name]
        ctx.check(bool(gets) and ((gb is not None and gb in rs.call_objs) or (table_ins and all(i in rs.call_objs for i in table_ins))) and nextc.dst['l'] in rs.locals, R + '/check_bound/bound-of-same-id', 'T-CARRY', b.name, 'the bound is not looked up under the entry\'s own id', b.site(c.bb))
        # every entry with a known bound reaches the test: with the lookup answering Some(..) no path comes round the loop
        # (or leaves it) without passing the test   [`if let Some(b) = m.get(k)` == `let b = m.get(k)?` in a closure == `match`]
        for gcall in gets:
            if gcall.bb not in blocks or gcall.target < 0: continue
            arr, rets, complete = PathEval(ctx, b).explore(gcall.target, {gcall.dst['l']: ('d', 1, None)}, stop={header, c.bb})
            skipped = bool(arr.get(header)) or any(result_kind(e) == 'ok' for e in rets)
            ctx.check(complete and not skipped and bool(arr.get(c.bb)), R + '/check_bound/every-bounded-entry', 'T-LOOPMUST', b.name, 'an entry with a bound can skip the test', b.site(gcall.bb))
        si = ctx.S.slice_operand(b, nextc.args[0])
        restr = sorted({x.item for x in si.call_objs if x.item in RESTRICTING and 'Iterator' in (x.trait or '')})
        # every entry is looked up: no `continue` in front of the lookup for ids outside some "relevant" set (seed C14-20) -- whether an entry has a bound is the only filter
        looked_up = bool(gets) and must_pass_sem(ctx, b, some_bb, {header}, {g.bb for g in gets if g.bb in blocks})
        ctx.check(not restr and 2 in si.params and si.has_field('v1::State', 'entries') and looked_up, R + '/check_bound/all-entries', 'T-LOOPMUST', b.name,
                  'loop does not look every state entry up in the bounds %s' % (restr or '(an entry can come round the loop without the lookup)'), b.site(nextc.bb))
    # ---- the only refusal of its own is a submitted value outside its bound: every Err-exit that is not a propagated failure (of
    # get_bounds / of the conversions of the table built in place) lies behind one of the contains-tests on a state value above.
    # A refusal decided from the instance alone (e.g. a recorded substituted_value re-checked with another tolerance, seed C03-20)
    # makes evaluate-after-partial_evaluate refuse what evaluate accepts.
    if tests:
        test_bbs = {c.bb for lo, c in tests}
        own = set()
        for bi, k, obj in b.ret_assignments():
            if k != 'err': continue
            if isinstance(obj, dict) and obj.get('k') == 'call' and 'from_residual' in (obj.get('r') or obj.get('f') or ''):
                continue                                  # `?`: the failure of a callee, not a verdict of this function
            own.add(bi)
        ctx.counters['cfg_paths'] += 1
        free = sorted(e for e in own if not must_pass_sem(ctx, b, 0, {e}, test_bbs))      # on feasible paths: `match find_map(..) { Some(..) => Err(..), None => Ok(()) }`
        ctx.check(not free, R + '/check_bound/only-stated-error', 'T-ERRFLOW', b.name,
                  'an error of its own is reachable without a Bound::contains(value, atol) test on a value of the submitted state (bb%s)' % free, b.site(free[0]) if free else b.site())
    # Bound::contains: `lower - atol <= v && v <= upper + atol`.  A small pure function: decided as a truth table on a grid of
    # points around both ends (any way of writing it: `&&`, De Morgan, `(lo..=hi).contains(&v)`, clamp, early returns);
    # the expression-shape form of the rule is only the fall-back when the body cannot be interpreted.
    cb = ctx.method(R + '/contains/anchor', 'bound::Bound', 'contains')
    if cb is not None:
        pts = []
        for lo_, up_ in ((1.0, 2.0), (-3.0, -1.0), (-1.0, 4.0), (0.0, 0.0)):
            for at in (0.25, 0.0):
                for v in (lo_ - at - 0.125, lo_ - at, lo_ - at + 0.125, lo_, (lo_ + up_) / 2, up_, up_ + at - 0.125, up_ + at, up_ + at + 0.125):
                    pts.append(({'lower': lo_, 'upper': up_}, v, at))
        tab, why = truth_table(ctx.F, cb, pts, lambda bnd, v, at: bnd['lower'] - at <= v and v <= bnd['upper'] + at)
        if tab is not None:
            ctx.check(not tab, R + '/contains/shape', 'T-BRANCHFX', cb.name, 'contains is not `lower - atol <= v && v <= upper + atol`: e.g. %s' % (tab[:2],), cb.site(), points=len(pts))
            accepted = [m for m in tab if m[1] is True]          # `||` instead of `&&`, a missing end
            ctx.check(not accepted, R + '/contains/conjunction', 'T-BRANCHFX', cb.name, 'values outside the widened bound are accepted: %s' % (accepted[:2],), cb.site())
        else:
            contains_shape_rule(ctx, R, cb)
    # get_bounds branch table (and its sibling TryFrom<&DecisionVariable> for Bound)
    gbb = ctx.method(R + '/get_bounds/anchor', INST, 'get_bounds')
    tfb = ctx.method(R + '/try_from/anchor', 'bound::Bound', 'try_from', trait='TryFrom', targs=["&v1::DecisionVariable"])
    tabs = {}
    for nm, fb in (('get_bounds', gbb), ('try_from', tfb)):
        if fb is None: continue
        tabs[nm] = bound_default_table(ctx, R + '/' + nm, fb, sibling=tfb if nm == 'get_bounds' else None)
    if len(tabs) == 2:
        ctx.check(tabs['get_bounds'] == tabs['try_from'], R + '/sibling/unset-bound-table', 'T-SIBLING', 'get_bounds vs TryFrom<&DecisionVariable>', 'tables differ: %s' % tabs)
    if gbb is not None:
        loops = loops_over(ctx, gbb, INST, 'decision_variables')
        ctx.check(bool(loops), R + '/get_bounds/loop', 'T-LOOPMUST', gbb.name, 'no loop over decision_variables', gbb.site())
        for lo in loops[:1]:
            loop_must(ctx, R + '/get_bounds/every-variable', gbb, lo, lambda c: c.item == 'insert' and 'HashMap' in c.name, 'bounds.insert')
    # nearest_to_zero: {lower >= 0 => lower; upper <= 0 => upper; else 0} -- truth table, structural form as fall-back
    nz = ctx.method('C05.state/nearest_to_zero/anchor', 'bound::Bound', 'nearest_to_zero')
    if nz is not None:
        pts = [({'lower': a, 'upper': c},) for a, c in ((1.0, 2.0), (0.5, 0.5), (0.0, 2.0), (-2.0, -1.0), (-2.0, 0.0), (-1.0, 3.0), (-4.0, 0.25), (float('-inf'), float('inf')), (float('-inf'), -2.0), (3.0, float('inf')))]
        tab, why = truth_table(ctx.F, nz, pts, lambda bnd: bnd['lower'] if bnd['lower'] >= 0.0 else (bnd['upper'] if bnd['upper'] <= 0.0 else 0.0))
        if tab is not None:
            ctx.check(not tab, 'C05.state/nearest_to_zero/table', 'T-BRANCHFX', nz.name, 'nearest_to_zero is not {lower>=0 => lower; upper<=0 => upper; else 0}: e.g. %s' % (tab[:3],), nz.site(), points=len(pts))
        else:
            rows = []
            for bi, st in float_cmp_sites(nz):
                l = T.expr_str(T.expr(nz, st['rv']['ops'][0])); r = T.expr_str(T.expr(nz, st['rv']['ops'][1]))
                for g in T.guards_from_local(nz, st['dst']['l'], bi):
                    tr = T.reach_cp(nz, [g.true_bb]) - T.reach_cp(nz, [g.false_bb])
                    rets = [T.expr_str(T.expr(nz, s2['rv']['ops'][0])) for b2, s2 in nz.stmts() if b2 in tr and s2['dst']['l'] == 0 and s2['rv']['k'] == 'use']
                    rows.append((st['rv']['op'], l, r, tuple(rets)))
            consts = [s2['rv']['ops'][0]['v'] for b2, s2 in nz.stmts() if s2['dst']['l'] == 0 and s2['rv']['k'] == 'use' and s2['rv']['ops'][0]['k'] == 'const']
            want = {('Ge', '_1.lower', '0f64', ('_1.lower',)), ('Le', '_1.upper', '0f64', ('_1.upper',))}
            ctx.check(set(rows) == want and consts == ['0f64'], 'C05.state/nearest_to_zero/table', 'T-BRANCHFX', nz.name,
                      'nearest_to_zero is not {lower>=0 => lower; upper<=0 => upper; else 0}: %s else %s' % (rows, consts), nz.site(), table=rows)


KIND = 'v1::decision_variable::Kind'


def _unset_bound_table(ctx, fb):
    """{'some': .., 'none-binary': .., 'none-other': ..} of a function that turns a DecisionVariable into its Bound,
    the number of `Some(bound)` tests found and the conversion calls on the Some side"""
    tab = {}
    arms = [(sm, nn) for sb, sm, nn in option_field_tests(fb, DV, 'bound')]
    if len(arms) != 1: return tab, len(arms), []
    some_bb, none_bb = arms[0]
    hdrs = {h for h in fb.loops()}
    sr = T.reach_cp(fb, [some_bb], stop=hdrs) - T.reach_cp(fb, [none_bb], stop=hdrs)
    nr = T.reach_cp(fb, [none_bb], stop=hdrs) - T.reach_cp(fb, [some_bb], stop=hdrs)
    conv = [c for c in fb.calls if c.bb in sr and re.search(r'TryFrom<v1::Bound>>::try_from|TryInto<bound::Bound>>::try_into|Bound::new$', c.name)]
    tab['some'] = 'converted' if conv else 'other'
    # None side: kind == Binary => new(0,1) else default();  the kind test in any idiom (==, match, matches!)
    for var, sb, tb, others in enum_tests(ctx, fb, KIND, blocks=nr):
        if var != 'Binary': continue
        tr = T.reach_cp(fb, [tb], stop=hdrs) - T.reach_cp(fb, others, stop=hdrs); fr = T.reach_cp(fb, others, stop=hdrs) - T.reach_cp(fb, [tb], stop=hdrs)
        news = [x for x in fb.calls if x.bb in tr and x.path.endswith('Bound::new')]
        v01 = [tuple(f64_of_operand(fb, a) for a in x.args) for x in news]
        # `Bound::new(0.0, 1.0)` == the struct literal `Bound { lower: 0.0, upper: 1.0 }` (possible inside the crate, e.g. in an inlined helper `Bound::default_for(kind)`)
        for bi, st in fb.stmts():
            if bi in tr and st['rv']['k'] == 'agg' and re.search(r'(^|::)bound::Bound$', st['rv']['adt']) and st['rv'].get('fields') and set(st['rv']['fields']) == {'lower', 'upper'}:
                ops = dict(zip(st['rv']['fields'], st['rv']['ops']))
                v01.append((f64_of_operand(fb, ops['lower']), f64_of_operand(fb, ops['upper'])))
        defs = [x for x in fb.calls if x.bb in fr and x.item == 'default' and 'bound::Bound' in x.name]
        tab['none-binary'] = v01[0] if len(v01) == 1 else tuple(v01)
        tab['none-other'] = 'Bound::default' if defs and not [x for x in fb.calls if x.bb in fr and x.path.endswith('Bound::new')] else 'other'
    return tab, 1, conv


def bound_default_table(ctx, rule, fb, sibling=None):
    """Some(b) => converted through Bound::new / try_from; None & Binary => [0,1]; otherwise Bound::default().
    The case split is either written out in `fb` or `fb` hands the variable to the sibling conversion
    `Bound::try_from(&DecisionVariable)` (`v.try_into()`), whose table then is the table of `fb`."""
    tab, ntests, conv = _unset_bound_table(ctx, fb)
    deleg = []
    if ntests == 0 and sibling is not None:
        deleg = [c for c in fb.calls if CONV_DV.search(c.name) and (ctx.F.bodies.get(c.path) is sibling or ctx.F.bodies.get(c.name) is sibling or CONV_DV.search(c.name))]
        deleg = [c for c in deleg if any(lo[0].dst['l'] in ctx.S.slice_operand(fb, c.args[0]).locals for lo in loops_over(ctx, fb, INST, 'decision_variables'))]
    if deleg:
        tab, n2, _ = _unset_bound_table(ctx, sibling)
        ctx.ok(rule + '/bound-option-test', 'T-BRANCHFX', fb.site(deleg[0].bb), delegated=sibling.name)
        error_propagates(ctx, rule + '/some/error-propagates', fb, deleg[:1], 'bound conversion')
    else:
        ctx.check(ntests == 1, rule + '/bound-option-test', 'T-BRANCHFX', fb.name, 'expected one `if let Some(bound) = &v.bound`, found %d' % ntests, fb.site())
        if ntests != 1: return tab
        if fb.hdr.get('item') != 'try_from':
            for c in conv: error_propagates(ctx, rule + '/some/error-propagates', fb, [c], 'bound conversion')
    # a declared bound is taken as it is: the only bound these functions may put together from parts is the binary default [0, 1] -- or the declared (lower, upper) itself;
    # anything computed (`Bound::new(b.lower().min(0.0), b.upper().max(0.0))` for semi-continuous kinds, seed C05-20) widens or narrows what the variable declares
    widened = []
    for x in fb.calls:
        if not x.path.endswith('Bound::new') or len(x.args) != 2: continue
        vals = tuple(f64_of_operand(fb, a) for a in x.args)
        if vals == (0.0, 1.0): continue
        es = [T.expr(fb, a) for a in x.args]
        if all(e[0] in ('place', 'proj') and T.own_fields(e)[-1:] == [('v1::Bound', f)] for e, f in zip(es, ('lower', 'upper'))): continue
        widened.append(x)
    if widened: tab = dict(tab, computed='Bound::new(%s)' % ', '.join(T.expr_str(T.expr(fb, a))[:40] for a in widened[0].args))
    ctx.check(not widened and tab.get('some') == 'converted' and tab.get('none-binary') == (0.0, 1.0) and tab.get('none-other') == 'Bound::default', rule + '/table', 'T-BRANCHFX', fb.name,
              'unset-bound table is %s, expected Some=>converted, None+Binary=>[0,1], None=>Bound::default()' % tab, fb.site(), table=str(tab))
    return tab


def inherited_from(ctx, b, sv, calls, except_fields):
    """fields of the returned struct (other than except_fields) that are NOT the same-named field of the value `calls` returned"""
    bad = []
    for f, op in sv.fields.items():
        if f in except_fields: continue
        ok = op is not None and op['k'] in ('copy', 'move') and any(c in ctx.S.slice_operand(b, op).call_objs for c in calls)
        if ok:
            ef = fields_of_place(op['pl']) or T.own_fields(T.expr(b, op))
            ok = bool(ef) and ef[-1][1] == f            # `name: out.description` is not the evaluated constraint's name
        if not ok: bad.append(f)
    return bad


def constraint_rules(ctx):
    R = 'C05.lists'
    # both functions are looked at in the re-normalised form (combinators on Option / Result written out as the match they abbreviate)
    b = ctx.method(R + '/Constraint::evaluate/anchor', CON, 'evaluate', trait='Evaluate')
    if b is not None: with_renormalised(ctx, b, lambda bd: _constraint_evaluate(ctx, R, bd))
    b = ctx.method(R + '/RemovedConstraint::evaluate/anchor', RC, 'evaluate', trait='Evaluate')
    if b is not None: with_renormalised(ctx, b, lambda bd: _removed_evaluate(ctx, R, bd))


def _constraint_evaluate(ctx, R, b):
    if True:
        sv = returned_struct(ctx, b, EC)
        ctx.check(sv is not None, R + '/Constraint::evaluate/aggregate', 'T-CARRY', b.name, 'the EvaluatedConstraint returned on success is not one recognisable value', b.site())
        for bi, st in ([(sv.where, sv.st())] if sv is not None else []):
            for f in ('id', 'equality', 'name', 'subscripts', 'parameters', 'description'):
                op = agg_field_operand(st, f)
                fs, root, calls = T.access_path(b, op) if op else ([], None, [])
                ctx.check(root == 1 and fs == [(CON, f)], R + '/Constraint::evaluate/carry/' + f, 'T-CARRY', b.name, 'EvaluatedConstraint.%s is not self.%s (path %s)' % (f, f, fs), b.site(bi))
            # evaluated_value == `.0` of <Function>::evaluate(the constraint's function, state).  The function is `self.function()` (the
            # accessor yields the zero function when the field is unset) or the field itself matched by hand, in which case the
            # unset side supplies the zero function's value 0.0:   `match &self.function { Some(f) => f.evaluate(s)?, None => (0.0, ..) }`
            vop = agg_field_operand(st, 'evaluated_value')
            srcs = value_sources(b, vop) if vop is not None else []
            evs = 0; vbad = []
            none_side = set()
            for sb, sm, nn in option_field_tests(b, CON, 'function'):
                none_side |= b.reach([nn]) - b.reach([sm])
            for kind, bb, obj, pending in srcs:
                if kind == 'call' and obj.item == 'evaluate' and 'v1::Function as evaluate::Evaluate' in obj.name and pending == ['ok', ('t', 0)]:
                    fe = T.expr(b, obj.args[0], depth=14)
                    from_self = (T.expr_has_call(fe, 'function') or (CON, 'function') in T.expr_fields(fe)) and any(x[0] == 'place' and x[1] == 1 for x in T.expr_walk(fe))
                    if from_self and T.access_path(b, obj.args[1])[1] == 2: evs += 1
                    else: vbad.append('evaluate of something else than (self.function, state)')
                elif kind == 'const' and f64_of_operand(b, {'k': 'const', 'v': obj}) == 0.0 and bb in none_side: pass
                else: vbad.append('%s %s' % (kind, obj.name[:50] if kind == 'call' else str(obj)[:50]))
            ctx.check(evs >= 1 and not vbad, R + '/Constraint::evaluate/value', 'T-CARRY', b.name, 'evaluated_value is not `.0` of self.function().evaluate(state): %s' % (vbad[:3] or 'no evaluation',), b.site(bi))
            uop = agg_field_operand(st, 'used_decision_variable_ids')
            ctx.check(uop is not None and slice_op(ctx, b, uop).has_call(r'v1::Function as evaluate::Evaluate>::evaluate'), R + '/Constraint::evaluate/used-ids', 'T-CARRY', b.name, 'used ids do not come from the function evaluation', b.site(bi))
            ctx.check(field_is_none(ctx, b, sv, 'removed_reason'), R + '/Constraint::evaluate/no-reason', 'T-CONST', b.name, 'active constraint gets a removal reason', b.site(bi))
        fe = [c for c in b.calls if c.item == 'evaluate' and 'v1::Function as evaluate::Evaluate' in c.name]
        error_propagates(ctx, R + '/Constraint::evaluate/error-propagates', b, fe, 'function evaluation')


def missing_is_error(ctx, rule, b, adt, field, users, what):
    """ONE instance: with Option field adt.field unset the function cannot succeed.  Every successful return passes a call of `users` (which needs the
    payload); every `as_ref()`-style opening of the field propagates its None as an error; on the None side of every Some/None test of the field
    all paths end in an error."""
    probs = []
    if not users or not dominates_ok(ctx, b, {c.bb for c in users}): probs.append('a successful return does not use the payload')
    for c in b.calls:
        if c.item in ('as_ref', 'as_mut', 'clone', 'take') and c.args and fields_of_place_last(b, c.args[0]) == (adt, field) and b.locals[c.dst['l']].startswith('std::option::Option'):
            res = T.errflow(b, c.dst['l'])
            bad = [h for k, h in res if k == 'bad']
            if bad and c.target >= 0:
                arr, rets, complete = PathEval(ctx, b).explore(c.target, {c.dst['l']: ('d', 0, None)})
                if complete and rets and all(result_kind(e) == 'err' for e in rets): bad = []
                elif complete and not rets: bad = []            # `.expect(..)` / `.unwrap()`: a panic, not a success
            probs += bad
    for sb, some_t, none_t in option_field_tests(b, adt, field):
        # only tests of the Option itself (the `?` after `.as_ref().context(..)` also has the field on its access path, but tests a ControlFlow)
        dl = b.blocks[sb]['term']['d']['pl']['l']
        tested = [d['rv']['pl'] for k, bb, d in b.defs_of(dl) if k == 'stmt' and d['rv']['k'] == 'discr']
        if not tested or 'option::Option<' not in b.locals[tested[0]['l']] and not any(isinstance(x, dict) and x.get('f') == field for x in tested[0]['p']): continue
        arr, rets, complete = PathEval(ctx, b).explore(none_t, {})
        if not complete or any(result_kind(e) == 'ok' for e in rets): probs.append('the None side of a test of self.%s can succeed' % field)
    ctx.check(not probs, rule, 'T-ERRFLOW', b.name, '%s: %s' % (what, '; '.join(sorted(set(probs)))), b.site())


def fields_of_place_last(b, operand):
    fs = T.access_path(b, operand)[0]
    return fs[-1] if fs else None


def _removed_evaluate(ctx, R, b):
    if True:
        ce = [c for c in b.calls if c.item == 'evaluate' and re.search(r'<v1::Constraint as evaluate::Evaluate>::evaluate', c.name)]
        ctx.check(len(ce) >= 1, R + '/RemovedConstraint::evaluate/delegates', 'T-MUSTCALL', b.name, 'does not evaluate the wrapped constraint', b.site())
        for c in ce:
            fs, root, calls = T.access_path(b, c.args[0])
            ctx.check((RC, 'constraint') in fs and T.access_path(b, c.args[1])[1] == 2, R + '/RemovedConstraint::evaluate/args', 'T-CARRY', b.name, 'not (self.constraint, state)', b.site(c.bb))
            error_propagates(ctx, R + '/RemovedConstraint::evaluate/error-propagates', b, [c], 'constraint evaluation')
        # a RemovedConstraint without its constraint is an error, however the Option is opened:
        #   `.as_ref().context(..)?`  ==  `match &self.constraint { Some(c) => .., None => bail!(..) }`  ==  `let Some(c) = &self.constraint else { bail!(..) }`
        missing_is_error(ctx, R + '/RemovedConstraint::evaluate/missing-is-error', b, RC, 'constraint', ce, 'missing constraint')
        # the returned EvaluatedConstraint: the two removal fields from self, every other field the wrapped constraint's evaluation;
        #   `out.f = x; Ok((out, ids))`  ==  `Ok((EvaluatedConstraint { f: x, ..out }, ids))`  ==  a literal naming every field
        sv = returned_struct(ctx, b, EC)
        for f in ('removed_reason', 'removed_reason_parameters'):
            op = sv.fields.get(f) if sv is not None else None
            ok = False
            if op is not None:
                ex = T.expr(b, op)
                ok = (RC, f) in T.expr_fields(ex) and (f != 'removed_reason' or (ex[0] == 'agg' and ex[1].endswith('Option::Some')))
            ctx.check(ok, R + '/RemovedConstraint::evaluate/' + f, 'T-CARRY', b.name, 'EvaluatedConstraint.%s is not set from self.%s on every success path' % (f, f), b.site())
        bad = inherited_from(ctx, b, sv, ce, ('removed_reason', 'removed_reason_parameters')) if sv is not None else ['?']
        ctx.check(not bad, R + '/RemovedConstraint::evaluate/returns-it', 'T-CARRY', b.name, 'returned value is not the evaluated constraint in its fields %s' % bad, b.site())


# the reported objective / constraint values are produced by the evaluation kernels
# ... and the dependent values of the reported state by eval_dependencies (seed C05-7: a single pass in id order instead of the fixed point)
RELIES_ON = {'C01': ['C01.lookup', 'C01.fields', 'C01.every-term', 'C01.linear-none', 'C01.oneof'], 'C04': ['C04.deps', 'C04.use'],
             # "previously fixed values": partial_evaluate records v.substituted_value and never resets it (seed C05-15)
             'C03': ['C03.instance/record']}


def check(ctx):
    body = ctx.method('C05.anchor/Instance::evaluate', INST, 'evaluate', trait='Evaluate')
    if body is not None: with_renormalised(ctx, body, lambda bd: solution_rules(ctx, bd))
    check_bound_rules(ctx)
    constraint_rules(ctx)
    f = ctx.method('C05.rule/EvaluatedConstraint::is_feasible/anchor', EC, 'is_feasible')
    if f is not None:
        check_feasibility_rule(ctx, 'C05.rule/EvaluatedConstraint::is_feasible', f, 'given')
        # atol > 0 guard is harmless; nothing else may reject
    ctx.floor('C05.bound', 25); ctx.floor('C05.lists', 43); ctx.floor('C05.flags', 15); ctx.floor('C05.state', 15); ctx.floor('C05.rule', 6); ctx.floor('C05.cover', 5); ctx.floor('C05.objective', 2)
