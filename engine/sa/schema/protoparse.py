"""Minimal proto3 parser (messages, nested messages/enums, oneofs, maps, optional/repeated, reserved, options)."""
import re, glob, os


def strip_comments(s):
    s = re.sub(r'/\*.*?\*/', '', s, flags=re.S)
    return re.sub(r'//[^\n]*', '', s)


def tokenize(s):
    return re.findall(r'"[^"]*"|[A-Za-z_][\w.]*|-?\d+|[{}\[\]=;<>,()]', s)


class P:
    def __init__(self, toks): self.t = toks; self.i = 0
    def peek(self): return self.t[self.i] if self.i < len(self.t) else None
    def next(self):
        x = self.t[self.i]; self.i += 1; return x
    def expect(self, x):
        y = self.next()
        if y != x: raise SyntaxError('expected %r, got %r near %r' % (x, y, self.t[max(0, self.i - 5):self.i + 5]))
        return y


def parse_file(path):
    p = P(tokenize(strip_comments(open(path).read())))
    out = dict(package=None, messages={}, enums={}, imports=[], syntax=None)
    while p.peek() is not None:
        t = p.next()
        if t == 'syntax': p.expect('='); out['syntax'] = p.next().strip('"'); p.expect(';')
        elif t == 'package': out['package'] = p.next(); p.expect(';')
        elif t == 'import':
            x = p.next()
            if x in ('public', 'weak'): x = p.next()
            out['imports'].append(x.strip('"')); p.expect(';')
        elif t == 'message': parse_message(p, out, '')
        elif t == 'enum': parse_enum(p, out, '')
        elif t == 'option':
            while p.next() != ';': pass
        elif t == ';': pass
        else: raise SyntaxError('unexpected token %r in %s' % (t, path))
    return out


def parse_opts(p):
    opts = {}
    if p.peek() == '[':
        p.next()
        while True:
            k = p.next()
            if k == '(':
                k = '(' + p.next() + ')'; p.expect(')')
            p.expect('='); v = p.next(); opts[k] = v
            if p.peek() == ',': p.next(); continue
            break
        p.expect(']')
    return opts


def parse_enum(p, out, prefix):
    name = prefix + p.next(); p.expect('{'); vals = {}; reserved = []
    while p.peek() != '}':
        k = p.next()
        if k == 'option':
            while p.next() != ';': pass
            continue
        if k == 'reserved':
            r = []
            while p.peek() != ';': r.append(p.next())
            p.next(); reserved.append(r); continue
        if k == ';': continue
        p.expect('='); v = int(p.next()); parse_opts(p); p.expect(';'); vals[k] = v
    p.expect('}'); out['enums'][name] = dict(values=vals, reserved=reserved)


def parse_message(p, out, prefix):
    name = prefix + p.next(); p.expect('{'); fields = []; reserved = []
    out['messages'][name] = dict(fields=fields, reserved=reserved)

    def parse_field(label, oneof=None):
        ty = p.next()
        if ty == 'map':
            p.expect('<'); k = p.next(); p.expect(','); v = p.next(); p.expect('>'); ty = ('map', k, v)
        fname = p.next(); p.expect('='); num = int(p.next()); opts = parse_opts(p); p.expect(';')
        fields.append(dict(name=fname, number=num, type=ty, label=label, oneof=oneof, opts=opts))
    while p.peek() != '}':
        t = p.peek()
        if t == 'message': p.next(); parse_message(p, out, name + '.')
        elif t == 'enum': p.next(); parse_enum(p, out, name + '.')
        elif t == 'oneof':
            p.next(); oname = p.next(); p.expect('{')
            while p.peek() != '}':
                if p.peek() == 'option':
                    while p.next() != ';': pass
                    continue
                parse_field('oneof', oname)
            p.expect('}')
        elif t in ('optional', 'repeated'): p.next(); parse_field(t)
        elif t == 'reserved':
            p.next(); r = []
            while p.peek() != ';': r.append(p.next())
            p.next(); reserved.append(r)
        elif t == 'option':
            while p.next() != ';': pass
        elif t == ';': p.next()
        else: parse_field('singular')
    p.expect('}')


def load(root):
    """root = <repo>/proto ; returns (messages, enums, files)"""
    msgs = {}; enums = {}; files = []
    for f in sorted(glob.glob(os.path.join(root, '**', '*.proto'), recursive=True)):
        d = parse_file(f); files.append(os.path.relpath(f, root))
        for k, v in d['messages'].items(): msgs[d['package'] + '.' + k] = dict(v, file=os.path.relpath(f, root), syntax=d['syntax'])
        for k, v in d['enums'].items(): enums[d['package'] + '.' + k] = dict(v, file=os.path.relpath(f, root))
    return msgs, enums, files


SCALARS = ('double', 'float', 'int32', 'int64', 'uint32', 'uint64', 'sint32', 'sint64', 'fixed32', 'fixed64', 'sfixed32', 'sfixed64', 'bool', 'string', 'bytes')
WIRETYPE = {'double': 1, 'fixed64': 1, 'sfixed64': 1, 'float': 5, 'fixed32': 5, 'sfixed32': 5, 'string': 2, 'bytes': 2}


def resolve(msgs, enums, scope, ty):
    """resolve a type name used inside message `scope` -> ('message'|'enum', full name) or None"""
    sc = scope.split('.')
    while sc:
        c = '.'.join(sc + [ty])
        if c in msgs: return 'message', c
        if c in enums: return 'enum', c
        sc = sc[:-1]
    if ty in msgs: return 'message', ty
    if ty in enums: return 'enum', ty
    return None


def wire_of(msgs, enums, scope, f):
    """(wire type, packed?) a conforming proto3 writer uses for field f"""
    ty = f['type']
    if isinstance(ty, tuple): return 2, False
    if ty in SCALARS:
        wt = WIRETYPE.get(ty, 0)
        if f['label'] == 'repeated' and ty not in ('string', 'bytes'): return 2, True
        return wt, False
    r = resolve(msgs, enums, scope, ty)
    if r and r[0] == 'enum':
        return (2, True) if f['label'] == 'repeated' else (0, False)
    return 2, False
