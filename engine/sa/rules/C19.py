"""C19 — reading QPLIB (DESIGN §5 C19).

Written against the normal form (`VIEW = 'norm'`): helpers that do not exist on the pinned tree are
inlined, iterator chains with closures are explicit `next` loops.  On top of that this module has a
small private normal form (`local_form`) for three Option/bool combinators the engine leaves alone;
every equivalence it uses is listed in LOCAL_IDIOMS.

Formulation principles (see /verif/refactors/C19-NOTES.txt):
 * a section of the file is "skipped under a kind letter" iff its cursor read is unreachable when every
   test on that enum takes the letter's side — tests being `match`, `matches!`, `==`/`!=` and bools
   computed from them (`reach_under`), not a particular `match` shape;
 * "the value of X comes from reader R" follows copies, `?`, tuples, Some/Ok, `Option::zip`
   (`origin_calls`), not a particular `let` structure;
 * the two sides of a constraint are regions guarded by the comparison with +-inf; everything asked
   of a side (sign of the constant, negated coefficient lists, id, equality, emission) is a dataflow
   fact inside the region, not a count of calls.
"""
from .common import *
from .. import normalize as NZ
from .. import dataflow as DF
from ..facts import Body

VIEW = 'norm'

QF = 'qplib::parser::QplibFile'
STARTING = ('default_starting_x', 'starting_x', 'default_starting_y', 'starting_y', 'default_starting_z', 'starting_z')


# =============================================================================== private normal form
# equivalences used by local_form (one entry per rewritten combinator)
LOCAL_IDIOMS = {
    'then':       '`c.then(|| e)`        == `if c { Some(e) } else { None }`',
    'ok_or_else': '`o.ok_or_else(|| e)`  == `match o { Some(v) => Ok(v), None => Err(e) }`',
    'ok_or':      '`o.ok_or(e)`          == `match o { Some(v) => Ok(v), None => Err(e) }` (e already evaluated)',
    'unzip':      '`it.unzip()` / `it.multiunzip()` / `it.collect::<(Vec<_>, Vec<_>, ..)>()` == one Vec per tuple position, `for t in it { v0.push(t.0); v1.push(t.1); .. }`',
}


def _vec_tuple_shape(ty):
    """nested-list shape of a tuple (of tuples ..) of Vecs: '((Vec<u64>, Vec<u64>), Vec<f64>)' -> [[v, v], v]; None for anything else"""
    el = _tuple_elems(ty)
    if not el or len(el) < 2: return None
    out = []
    for e in el:
        if e.startswith('std::vec::Vec<'): out.append(e)
        else:
            sub = _vec_tuple_shape(e)
            if sub is None: return None
            out.append(sub)
    return out


def _tuple_elems(ty):
    """top-level elements of a tuple type string, or None"""
    ty = ty.strip()
    if not (ty.startswith('(') and ty.endswith(')')): return None
    out = []; depth = 0; cur = ''
    for i, ch in enumerate(ty[1:-1]):
        if ch in '(<[': depth += 1
        elif ch in ')]' or (ch == '>' and ty[i] != '-'): depth -= 1
        if ch == ',' and depth == 0: out.append(cur.strip()); cur = ''
        else: cur += ch
    if cur.strip(): out.append(cur.strip())
    return out
_SOME0 = [{'dc': 'Some'}, {'f': '0', 'of': 'std::option::Option::Some'}]


def _closure_value(F, rw, op):
    """(closure body dict, captured operands) of an operand holding a closure built in this body"""
    for _ in range(6):
        if op['k'] not in ('copy', 'move') or op['pl']['p']: return None
        d = rw.single_def(op['pl']['l'])
        if d is None or d[0] != 'stmt': return None
        rv = d[2]['rv']
        if rv['k'] == 'use': op = rv['ops'][0]; continue
        if rv['k'] == 'agg' and rv['adt'].startswith('closure:'):
            cb = F.bodies.get(rv['adt'][8:])
            return (cb.d, rv['ops']) if cb is not None else None
        return None
    return None


def local_form(ctx, body):
    """`body` with the combinators of LOCAL_IDIOMS replaced by the match they stand for (closure bodies
    spliced, captures substituted).  Identity when none occurs.  Cached per body."""
    cache = ctx.__dict__.setdefault('_c19_local', {})
    if body.name in cache: return cache[body.name]
    rw = NZ.Rewriter(body.d)
    for _ in range(24):
        hit = False
        for bi, blk in enumerate(rw.blocks):
            t = blk['term']
            if blk['cleanup'] or t['k'] != 'call' or t['t'] < 0 or t.get('c19'): continue
            name = t.get('r') or t.get('f') or ''; item = (t.get('ri') or {}).get('item') or ''
            span = t.get('span'); line = (span or {}).get('lo', 0); dst = t['dst']; after = t['t']
            if item == 'then' and re.search(r'\bbool\b', name) and len(t['args']) == 2:
                cv = _closure_value(ctx.F, rw, t['args'][1])
                if cv is None: t['c19'] = 'opaque'; continue
                cd, caps = cv
                r = rw.new_local(cd['locals'][0])
                some = rw.new_block([NZ._agg(dst, 'std::option::Option::Some', [NZ._mv(r)], line=line)], {'k': 'goto', 't': after})
                none = rw.new_block([NZ._agg(dst, 'std::option::Option::None', [], line=line)], {'k': 'goto', 't': after})
                entry = rw.splice(cd, [NZ._const('()', 'env')], NZ._pl(r), some, span, captures=caps)
                blk['term'] = {'k': 'switch', 'd': t['args'][0], 'ts': [[0, none]], 'else': entry}
                hit = True; break
            shape = _vec_tuple_shape(rw.locals[dst['l']]) if not dst['p'] else None
            if item in ('unzip', 'multiunzip', 'collect') and re.search(r'iter::Iterator$|Itertools$', (t.get('ri') or {}).get('trait') or '') and shape is not None \
                    and t['args'] and t['args'][0]['k'] in ('copy', 'move') and not t['args'][0]['pl']['p']:
                N = NZ.Normalizer(ctx.F, None, True)
                a = t['args'][0]
                base, chain = N._walk_chain(rw, a['pl']['l'])
                N._strip_adaptors(rw, chain)
                it = rw.new_local('?iter')
                blk['st'].append(NZ._use(it, a, line))
                head = rw.new_block(); done = rw.new_block()
                leaves = []          # (path, collection local)
                def mk(sh, path):
                    if isinstance(sh, str):
                        cl_ = rw.new_local(sh); leaves.append((path, cl_)); return cl_
                    subs = [mk(x, path + [k]) for k, x in enumerate(sh)]
                    tl_ = rw.new_local('(?)')
                    rw.blocks[done]['st'].append(NZ._agg(tl_, 'tuple', [NZ._mv(x) for x in subs], line=line))
                    return tl_
                top = [mk(x, [k]) for k, x in enumerate(shape)]
                cur = bi
                for path, cl_ in leaves:
                    nb = rw.new_block()
                    rw.blocks[cur]['term'] = NZ.mk_call('std::vec::Vec::<T>::new', 'std::vec::Vec::<T>::new', None, 'std::vec::Vec::<T>', 'new', [], cl_, nb, span)
                    cur = nb
                rw.goto(cur, head)
                o, some = N._emit_next(rw, head, it, span, done)
                entry, last, item_op, cont = N._emit_adaptors(rw, chain, NZ._mv(o, NZ.SOME0), span, head, done)
                rw.goto(some, entry)
                il = rw.new_local('(?)')
                rw.blocks[last]['st'].append(NZ._use(il, item_op, line))
                cur = last
                for n_, (path, cl_) in enumerate(leaves):
                    nxt = cont if n_ == len(leaves) - 1 else rw.new_block()
                    N._emit_push(rw, cur, cl_, 'Vec', NZ._mv(il, [{'f': str(k), 'of': 'tuple'} for k in path]), span, nxt)
                    cur = nxt
                rw.blocks[done]['st'].append(NZ._agg(dst, 'tuple', [NZ._mv(c_) for c_ in top], line=line))
                rw.goto(done, after)
                rw.changed = True
                hit = True; break
            if item in ('ok_or_else', 'ok_or') and re.search(r'option::Option::<', name) and len(t['args']) == 2 and t['args'][0]['k'] in ('copy', 'move'):
                opt = t['args'][0]['pl']
                if item == 'ok_or_else':
                    cv = _closure_value(ctx.F, rw, t['args'][1])
                    if cv is None: t['c19'] = 'opaque'; continue
                dl = rw.new_local('isize'); un = rw.new_block()
                okb = rw.new_block([NZ._agg(dst, 'std::result::Result::Ok', [{'k': 'move', 'pl': {'l': opt['l'], 'p': list(opt['p']) + _SOME0}}], line=line)], {'k': 'goto', 't': after})
                if item == 'ok_or_else':
                    cd, caps = cv
                    r = rw.new_local(cd['locals'][0])
                    errb = rw.new_block([NZ._agg(dst, 'std::result::Result::Err', [NZ._mv(r)], line=line)], {'k': 'goto', 't': after})
                    entry = rw.splice(cd, [NZ._const('()', 'env')], NZ._pl(r), errb, span, captures=caps)
                else:
                    entry = rw.new_block([NZ._agg(dst, 'std::result::Result::Err', [t['args'][1]], line=line)], {'k': 'goto', 't': after})
                blk['st'].append(NZ._discr(dl, {'l': opt['l'], 'p': list(opt['p'])}, line))
                blk['term'] = {'k': 'switch', 'd': NZ._mv(dl), 'ts': [[0, entry], [1, okb]], 'else': un}
                hit = True; break
        if not hit: break
    changed = rw.d['blocks'] != body.d['blocks']
    if changed:
        nb = Body(rw.d); nb.facts = ctx.F
    else:
        nb = body
    cache[body.name] = nb
    return nb


def local_slicer(ctx):
    """slices over local_form bodies (the engine's slicer caches graphs by body name)"""
    s = ctx.__dict__.get('_c19_slicer')
    if s is None:
        s = ctx.__dict__['_c19_slicer'] = DF.Slicer(ctx.F, depth=ctx.S.depth)
    return s


# =============================================================================== generic helpers
def literal_table(body):
    """{literal: (true_target, false_target, call)} of the `x == "LIT"` tests of a string match"""
    tab = {}
    for lit, c, t, f in T.str_eq_tests(body):
        tab.setdefault(lit, (t, f, c))
    return tab


def _projs(pl):
    """field projections of a place as (name, owner); derefs / downcasts / indices dropped"""
    return [(p['f'], p.get('of', '')) for p in pl['p'] if isinstance(p, dict) and 'f' in p]


_PAYLOAD = re.compile(r'(Option::Some|Result::Ok|ControlFlow::Continue)$')
# calls whose result *is* (a wrapper around) their first argument, for the purpose of "where does this value come from"
ORIGIN_TRANSPARENT = re.compile(r'::(to_ascii_uppercase|to_ascii_lowercase|to_owned|to_string)$')


def origin_calls(b, operand, depth=28):
    """the calls that directly produce the value of `operand`: follows copies, references, casts, `?`
    and the other transparent adaptors, projections out of tuples / Some / Ok built in this body, all
    definitions of a match-joined local, and `Option::zip` (`a.zip(b)` yields Some((a, b)))."""
    out = []; seen = set()

    def visit(l, projs, d):
        key = (l, tuple(projs))
        if key in seen or d <= 0: return
        seen.add(key)
        for k, bi, df in b.defs_of(l):
            if k == 'call':
                c = [x for x in b.calls if x.bb == bi][0]
                nm = T.strip_generics_tail(c.name)
                a0 = c.args[0] if c.args and c.args[0]['k'] in ('copy', 'move') else None
                if re.search(r'option::Option::<.*>::zip$', nm) and len(c.args) == 2 and len(projs) >= 2 and _PAYLOAD.search(projs[0][1]) and projs[1][0] in ('0', '1'):
                    a = c.args[int(projs[1][0])]
                    if a['k'] in ('copy', 'move'): visit(a['pl']['l'], _projs(a['pl']) + [projs[0]] + projs[2:], d - 1)
                elif (T.TRANSPARENT.search(nm) or ORIGIN_TRANSPARENT.search(nm)) and a0 is not None:
                    visit(a0['pl']['l'], _projs(a0['pl']) + projs, d - 1)
                elif 'FromResidual' in c.name and c.item == 'from_residual':
                    pass            # the Err / None of an inner `?`: never the value asked for
                else:
                    out.append(c)
                continue
            if df['dst']['p']: continue
            rv = df['rv']
            if rv['k'] in ('use', 'cast') and rv['ops'][0]['k'] in ('copy', 'move'):
                pl = rv['ops'][0]['pl']; visit(pl['l'], _projs(pl) + projs, d - 1)
            elif rv['k'] == 'ref':
                visit(rv['pl']['l'], _projs(rv['pl']) + projs, d - 1)
            elif rv['k'] == 'agg' and rv['adt'] == 'tuple' and projs and projs[0][1] == 'tuple' and projs[0][0].isdigit() and int(projs[0][0]) < len(rv['ops']):
                o = rv['ops'][int(projs[0][0])]
                if o['k'] in ('copy', 'move'): visit(o['pl']['l'], _projs(o['pl']) + projs[1:], d - 1)
            elif rv['k'] == 'agg' and rv['ops'] and _PAYLOAD.search(rv['adt']):
                o = rv['ops'][0]
                if o['k'] in ('copy', 'move'): visit(o['pl']['l'], _projs(o['pl']) + (projs[1:] if projs and _PAYLOAD.search(projs[0][1]) else projs), d - 1)
    if operand['k'] in ('copy', 'move'):
        visit(operand['pl']['l'], _projs(operand['pl']), depth)
    uniq = {}
    for c in out: uniq[id(c)] = c
    return list(uniq.values())


def direct_calls(b, operand, item):
    """calls named `item` that directly produce the value of `operand`, not earlier calls that merely share state"""
    return [c for c in origin_calls(b, operand) if c.item == item]


def value_root(b, operand, depth=14):
    """the local a value was built in: follows plain copies, references, transparent views and a projection out of a tuple built in this
    body (`let (rows, columns, values) = (v0, v1, v2)`), so the Vec behind `&mut rows` and behind `Quadratic { rows, .. }` is the same local"""
    if operand['k'] not in ('copy', 'move'): return None
    l = operand['pl']['l']; projs = _projs(operand['pl'])
    for _ in range(depth):
        ds = [d for d in b.defs_of(l) if not (d[0] == 'stmt' and d[2]['dst']['p'])]
        if len(ds) != 1: return l
        k, bi, d = ds[0]
        if k == 'call':
            nm = d['r'] or d['f']
            if T.TRANSPARENT_NOCLONE.search(T.strip_generics_tail(nm)) and d['args'] and d['args'][0]['k'] in ('copy', 'move'):
                l = d['args'][0]['pl']['l']; projs = _projs(d['args'][0]['pl']) + projs; continue
            return l
        rv = d['rv']
        if rv['k'] == 'use' and rv['ops'][0]['k'] in ('copy', 'move'):
            projs = _projs(rv['ops'][0]['pl']) + projs; l = rv['ops'][0]['pl']['l']; continue
        if rv['k'] == 'ref':
            projs = _projs(rv['pl']) + projs; l = rv['pl']['l']; continue
        if rv['k'] == 'agg' and rv['adt'] == 'tuple' and projs and projs[0][1] == 'tuple' and projs[0][0].isdigit() and int(projs[0][0]) < len(rv['ops']) and rv['ops'][int(projs[0][0])]['k'] in ('copy', 'move'):
            o = rv['ops'][int(projs[0][0])]
            projs = _projs(o['pl']) + projs[1:]; l = o['pl']['l']; continue
        return l
    return l


def borrowed_local(b, operand, depth=8):
    """the local a reference operand borrows: through reborrows and deref / as_mut_slice views (`&mut types` -> `&mut Vec` -> `&mut [T]`),
    not through copies of the value"""
    if operand['k'] not in ('copy', 'move'): return None
    l = operand['pl']['l']
    for _ in range(depth):
        if not b.locals[l].lstrip().startswith('&'): return l
        ds = [d for d in b.defs_of(l) if not (d[0] == 'stmt' and d[2]['dst']['p'])]
        if len(ds) != 1: return None
        k, bi, d = ds[0]
        if k == 'call':
            nm = T.strip_generics_tail(d['r'] or d['f'])
            if re.search(r'::(deref|deref_mut|as_mut_slice|as_slice|as_mut|as_ref|borrow|borrow_mut)$', nm) and d['args'] and d['args'][0]['k'] in ('copy', 'move'): l = d['args'][0]['pl']['l']; continue
            return None
        rv = d['rv']
        if rv['k'] == 'ref':
            if [p for p in rv['pl']['p'] if p != '*']: return None
            l = rv['pl']['l']; continue
        if rv['k'] == 'use' and rv['ops'][0]['k'] in ('copy', 'move') and not rv['ops'][0]['pl']['p']: l = rv['ops'][0]['pl']['l']; continue
        return None
    return None


def innermost_loop(b, bi):
    """(header, blocks) of the innermost natural loop containing block bi, or None"""
    best = None
    for h, blocks in b.loops().items():
        if bi in blocks and (best is None or len(blocks) < len(best[1])): best = (h, blocks)
    return best


def exclusive_regions(b, bi, a_bb, o_bb):
    """blocks reached only through a_bb / only through o_bb from the two-way test in block bi; the
    walk stops at the header of the loop the test sits in, so one iteration is looked at"""
    lo = innermost_loop(b, bi)
    stop = {lo[0]} if lo else set()
    ra = b.reach([a_bb], stop=stop) if a_bb is not None else set()
    ro = b.reach([o_bb], stop=stop) if o_bb is not None else set()
    return ra - ro, ro - ra


def reach_ps(b, starts, limit=60000, stop=()):
    """path-sensitive forward reachability: remembers, along each path, bools assigned a literal and the
    variant of Option/Result locals built by an aggregate (through moves), and follows only the matching
    side of a switch on them.  Falls back to plain reachability when the state space explodes."""
    VAR = {'Option::None': 0, 'Option::Some': 1, 'Result::Ok': 0, 'Result::Err': 1}
    def variant(adt):
        for k, v in VAR.items():
            if adt.endswith(k): return v
        return None
    seen = set(); out = set(); work = [(s, frozenset()) for s in starts]
    while work:
        bi, env = work.pop()
        if (bi, env) in seen: continue
        seen.add((bi, env)); out.add(bi)
        if len(seen) > limit: return b.reach(starts)
        e = dict(env)
        blk = b.blocks[bi]
        for st in blk['st']:
            if 'dst' not in st: continue
            d = st['dst']; rv = st['rv']
            if d['p']:
                e.pop(('v', d['l']), None); continue
            l = d['l']; o = rv['ops'][0] if rv.get('ops') else None
            for key in (('b', l), ('v', l), ('d', l)): e.pop(key, None)
            if rv['k'] in ('ref', 'rawptr') and (rv.get('mut') or rv['k'] == 'rawptr'):      # may be written through the borrow: forget it
                for key in (('b', rv['pl']['l']), ('v', rv['pl']['l']), ('d', rv['pl']['l'])): e.pop(key, None)
            if rv['k'] == 'use' and o['k'] == 'const' and o['v'] in ('true', 'false'): e[('b', l)] = (o['v'] == 'true')
            elif rv['k'] == 'use' and o['k'] in ('copy', 'move') and not o['pl']['p']:
                for kind in ('b', 'v', 'd'):
                    if (kind, o['pl']['l']) in e: e[(kind, l)] = e[(kind, o['pl']['l'])]
            elif rv['k'] == 'un' and rv['op'] == 'Not' and o['k'] in ('copy', 'move') and not o['pl']['p'] and ('b', o['pl']['l']) in e: e[('b', l)] = not e[('b', o['pl']['l'])]
            elif rv['k'] == 'agg' and variant(rv['adt']) is not None: e[('v', l)] = variant(rv['adt'])
            elif rv['k'] == 'discr' and not rv['pl']['p'] and ('v', rv['pl']['l']) in e: e[('d', l)] = e[('v', rv['pl']['l'])]
        t = blk['term']; succs = b.succ(bi)
        if t['k'] == 'call':
            nm = t.get('r') or t.get('f') or ''
            a0 = t['args'][0] if t['args'] else None
            br = None
            if T.TRY_BRANCH.search(nm) and a0 is not None and a0['k'] in ('copy', 'move') and not a0['pl']['p'] and ('v', a0['pl']['l']) in e:
                # `x?`: Ok / Some continue (ControlFlow::Continue = 0), Err / None break (= 1)
                v = e[('v', a0['pl']['l'])]
                br = (1 - v) if nm.startswith('<std::option::Option<') else v
            if br is None and T.ERR_ADAPTORS.search(nm) and a0 is not None and a0['k'] in ('copy', 'move') and not a0['pl']['p'] and ('v', a0['pl']['l']) in e:
                # variant-preserving adaptors: `r.map_err(f)`, `r.map(f)`, `o.map(f)`, `o.copied()`, `r.context(..)` keep Ok/Err resp. Some/None;
                # `o.ok_or(..)`, `o.ok_or_else(..)`, `o.context(..)` turn Some into Ok (0) and None into Err (1)
                v = e[('v', a0['pl']['l'])]
                from_opt = b.locals[a0['pl']['l']].lstrip('&mut ').startswith('std::option::Option')
                to_res = bool(re.search(r'::(ok_or|ok_or_else|context|with_context)(::<.*>)?$', nm))
                br = (1 - v) if (from_opt and to_res) else v
            if 'FromResidual' in nm and nm.endswith('from_residual'):
                # the residual of `?` handed to the caller's type: Err / None
                br = 0 if nm.startswith('<std::option::Option<') else 1
            for key in (('b', t['dst']['l']), ('v', t['dst']['l']), ('d', t['dst']['l'])): e.pop(key, None)
            if br is not None and not t['dst']['p']: e[('v', t['dst']['l'])] = br
        elif t['k'] == 'switch' and t['d']['k'] != 'const' and not t['d']['pl']['p']:
            dl = t['d']['pl']['l']; m = {v: tg for v, tg in t['ts']}
            if ('b', dl) in e: succs = [m.get(1 if e[('b', dl)] else 0, t['else'])]
            elif ('d', dl) in e: succs = [m.get(e[('d', dl)], t['else'])]
        fe = frozenset(e.items())
        for s in succs:
            if not b.blocks[s]['cleanup'] and s not in stop: work.append((s, fe))
    return out


def errflow_ps(b, local, depth=0, none_variant=0):
    """T.errflow with path-sensitive reachability (reach_ps): after an "extract helper" edit the normal form has the
    helper's `return Err(..)` / inner `?` assign the helper's result and the caller's `?` test it again; plain
    reachability would let the inner Break arm reach the caller's Continue arm."""
    res = []
    if depth > 6: return [('bad', 'adaptor chain too deep')]
    if local == 0: return [('ok', 'returned')]
    oks = b.strict_ok_exits()
    uses = b.uses.get(local, ())
    if not uses: return [('bad', 'result unused (dropped)')]
    for kind, bi, x in uses:
        if kind == 'call':
            name = x.name
            if T.TRY_BRANCH.search(name):
                arms = T.try_arms(b, local)
                if arms: res.append(('bad', 'Break arm of ? reaches an Ok-exit') if reach_ps(b, [arms[1]]) & oks else ('ok', '?'))
                else: res.append(('bad', 'Try::branch without switch'))
            elif T.ERR_ADAPTORS.search(name):
                res += [(k, '%s -> %s' % (x.item, h)) for k, h in errflow_ps(b, x.dst['l'], depth + 1, none_variant)]
            elif T.ERR_BAD.search(name): res.append(('bad', 'consumed by ' + x.item))
            else: res.append(('bad', 'passed to ' + name[:60]))
        elif kind == 'stmt':
            rv = x['rv']
            if rv['k'] == 'discr':
                for k3, b3, sw in b.uses.get(x['dst']['l'], ()):
                    if k3 != 'switch': continue
                    m = {v: t for v, t in sw['ts']}
                    r = reach_ps(b, [m.get(none_variant, sw['else'])])
                    res.append(('bad', 'None/Err side of match reaches an Ok-exit') if r & oks else ('ok', 'match: None/Err side reaches only Err-exits'))
            elif rv['k'] == 'use' and x['dst']['p'] == []:
                o = rv['ops'][0]
                if o['k'] in ('copy', 'move') and o['pl']['l'] == local and o['pl']['p'] == []:
                    if x['dst']['l'] == 0: res.append(('ok', 'returned'))
                    else: res += errflow_ps(b, x['dst']['l'], depth + 1, none_variant)
            elif rv['k'] == 'ref':
                res += errflow_ps(b, x['dst']['l'], depth + 1, none_variant)
    if not res: res.append(('bad', 'no recognised consumer'))
    return res


def errflow_calls_ps(ctx, rule, body, calls, what):
    """common.errflow_calls on errflow_ps"""
    for c in calls:
        res = errflow_ps(body, c.dst['l'])
        ctx.counters['cfg_paths'] += 1
        bad = [h for k, h in res if k == 'bad']
        ctx.check(not bad, rule, 'T-ERRFLOW', body.name, '%s: %s' % (what, '; '.join(sorted(set(bad)))), body.site(c.bb), consumers=[h for k, h in res])


def sign_and_core(e):
    """(sign, core) of an f64 expression tree: peels negations written as `-x`, `x * -1.0`, `-1.0 * x` (bit-identical for every f64;
    `0.0 - x` is not: it turns +0.0 into +0.0 where `-x` gives -0.0, so it is deliberately not in the list)"""
    sign = 1
    while True:
        e = T.arith(e)
        if e[0] == 'un' and e[1] == 'Neg': sign = -sign; e = e[2]; continue
        if e[0] == 'bin' and e[1] == 'Mul':
            cs = [(i, T.f64_const(x[1])) for i, x in ((2, e[2]), (3, e[3])) if x[0] == 'const']
            neg = [i for i, v in cs if v == -1.0]
            if neg: sign = -sign; e = e[3] if neg[0] == 2 else e[2]; continue
        return sign, e


def _reads_place(b, operand, place):
    """is the operand the value of `place` (directly, or through one temporary `t = copy place`)?"""
    if operand['k'] not in ('copy', 'move'): return False
    if operand['pl'] == place: return True
    if operand['pl']['p']: return False
    ds = b.defs_of(operand['pl']['l'])
    return len(ds) == 1 and ds[0][0] == 'stmt' and not ds[0][2]['dst']['p'] and ds[0][2]['rv']['k'] == 'use' and ds[0][2]['rv']['ops'][0]['k'] in ('copy', 'move') and ds[0][2]['rv']['ops'][0]['pl'] == place


def flows_to_return(b, local, limit=600):
    """does the value in `local` reach the return place?  Forward, over-approximate: through moves, wrappers, any call taking it by value (into
    the call's result), and insertion calls (into the collection the `&mut` receiver points to).  Positions inside tuples built in the body
    are kept apart (`let (upper, lower) = helper(..); out.extend(upper); drop(lower)` loses the lower value)."""
    INS = ('push', 'push_back', 'insert', 'extend', 'append', 'extend_from_slice')
    def fs(pl): return tuple(f for f, of in _projs(pl))
    def through(pl, path):
        """the tainted part (at `path` inside the local) as seen through the place: remaining path, or None if the place misses it"""
        q = fs(pl); n = min(len(q), len(path))
        if q[:n] != path[:n]: return None
        return path[len(q):] if len(q) <= len(path) else ()
    seen = set(); work = [(local, ())]
    while work and len(seen) < limit:
        l, path = work.pop()
        if (l, path) in seen: continue
        seen.add((l, path))
        if l == 0: return True
        for kind, bi, x in b.uses.get(l, ()):
            if kind == 'stmt':
                if 'dst' not in x: continue
                rv = x['rv']; dpath = fs(x['dst'])
                hit = None
                if 'pl' in rv and rv['pl']['l'] == l: hit = through(rv['pl'], path)
                for k_, o in enumerate(rv.get('ops', [])):
                    if o['k'] in ('copy', 'move') and o['pl']['l'] == l:
                        r = through(o['pl'], path)
                        if r is None: continue
                        hit = ((str(k_),) + r) if (rv['k'] == 'agg' and rv['adt'] == 'tuple') else (r if rv['k'] in ('use', 'cast') else ())
                if hit is not None: work.append((x['dst']['l'], dpath + hit))
            elif kind == 'call':
                used = [a for a in x.args if a['k'] in ('copy', 'move') and a['pl']['l'] == l and through(a['pl'], path) is not None]
                if not used: continue
                work.append((x.dst['l'], ()))
                if x.item in INS and x.args and x.args[0]['k'] in ('copy', 'move') and x.args[0]['pl']['l'] != l:
                    # receiver `&mut coll`: the collection local(s) it borrows (a reborrow chain `&mut *(&mut coll)` is followed down to the collection)
                    rs = [x.args[0]['pl']['l']]; done_r = set()
                    while rs:
                        r = rs.pop()
                        if r in done_r: continue
                        done_r.add(r); work.append((r, ()))
                        for k2, b2, d2 in b.defs_of(r):
                            if k2 != 'stmt' or d2['dst']['p']: continue
                            if d2['rv']['k'] == 'ref': rs.append(d2['rv']['pl']['l'])
                            elif d2['rv']['k'] == 'use' and d2['rv']['ops'][0]['k'] in ('copy', 'move'): rs.append(d2['rv']['ops'][0]['pl']['l'])
    return any(l == 0 for l, p_ in seen)


# =============================================================================== concrete probing of a loop body
# A small interpreter of the mini-MIR on concrete sample values ("path probing"): enough for scalar tests, tuples, references,
# field-less enums, short-circuit control flow, `==`/`<`.. through PartialEq/PartialOrd, crate helpers.  Anything else is UNK; a
# switch on UNK ends the probe undecided.  Nothing of the library is executed.
class _Unk:
    def __repr__(self): return 'UNK'
UNK = _Unk()


class _Cell:
    __slots__ = ('v',)
    def __init__(self, v=UNK): self.v = v


class _Ref:
    __slots__ = ('cell', 'path')
    def __init__(self, cell, path): self.cell = cell; self.path = list(path)


class _Iter:
    """a modelled iterator: the items still to come"""
    __slots__ = ('items', 'pos')
    def __init__(self, items): self.items = list(items); self.pos = 0


class ProbeUndecided(Exception):
    pass


def _nav(v, path):
    for k in path:
        if isinstance(v, list) and isinstance(k, int) and k < len(v[-1]): v = v[-1][k]
        else: return UNK
    return v


def _cp_val(v):
    if isinstance(v, list) and v[0] == 'vec': return v            # a moved Vec keeps its element cells
    return [v[0]] + [x for x in v[1:-1]] + [[_cp_val(x) for x in v[-1]]] if isinstance(v, list) else v


def _full(v, depth=0):
    """value with every reference replaced by what it points to"""
    if depth > 12: return UNK
    if isinstance(v, _Ref): return _full(_nav(v.cell.v, v.path), depth + 1)
    if isinstance(v, list) and v[0] == 'vec': return ['vec', [_full(c.v, depth + 1) for c in v[1]]]
    if isinstance(v, list): return [v[0]] + list(v[1:-1]) + [[_full(x, depth + 1) for x in v[-1]]]
    return v


def _has_unk(v):
    if v is UNK: return True
    return isinstance(v, list) and any(_has_unk(x) for x in v[-1])


_BUILTIN_DISCR = {'Option::None': 0, 'Option::Some': 1, 'Result::Ok': 0, 'Result::Err': 1, 'ControlFlow::Continue': 0, 'ControlFlow::Break': 1}


class Probe:
    def __init__(self, ctx, budget=4000):
        self.ctx = ctx; self.F = ctx.F; self.budget = budget

    # ---- values
    def const(self, body, o):
        v = o['v'].strip()
        if v.startswith('const '): v = v[6:]
        if v in ('true', 'false'): return v == 'true'
        if '::promoted[' in v:
            m = re.search(r'::promoted\[(\d+)\]$', v)
            pb = self.F.bodies.get(v) or self.F.bodies.get('%s::promoted[%s]' % (body.name, m.group(1)))
            return self.run(pb, [], depth=1) if pb is not None else UNK
        if v in self.F.consts: v = self.F.consts[v][1]
        m = re.match(r'^(-?[0-9]+)_?[iu](8|16|32|64|128|size)$', v)
        if m: return int(m.group(1))
        f = T.f64_const(v)
        return f if f is not None else UNK

    def handle(self, fr, pl):
        cell = fr[pl['l']]; path = []
        for p in pl['p']:
            if p == '*':
                cur = _nav(cell.v, path)
                if isinstance(cur, _Ref): cell, path = cur.cell, list(cur.path)
            elif isinstance(p, dict) and 'f' in p:
                if not p['f'].isdigit(): return None
                path.append(int(p['f']))
            elif isinstance(p, dict) and 'dc' in p: pass
            elif isinstance(p, dict) and 'ix' in p:
                # built-in slice indexing `s[i]` (the bounds check is an `assert` before it)
                cur = _nav(cell.v, path); i = _full(fr[p['ix']].v)
                if isinstance(cur, list) and cur[0] == 'vec' and isinstance(i, int) and not isinstance(i, bool) and 0 <= i < len(cur[1]): cell, path = cur[1][i], []
                else: return None
            else: return None
        return cell, path

    def operand(self, body, fr, o):
        if o['k'] == 'const': return self.const(body, o)
        if o['k'] not in ('copy', 'move'): return UNK
        h = self.handle(fr, o['pl'])
        return _cp_val(_nav(h[0].v, h[1])) if h else UNK

    def discr(self, v):
        v = _full(v)
        if not isinstance(v, list) or v[0] != 'enum': return UNK
        for k, d in _BUILTIN_DISCR.items():
            if v[1].endswith(k): return d
        adt = self.F.adt(v[1].rsplit('::', 1)[0]) if '::' in v[1] else None
        for x in (adt or {}).get('variants', []):
            if x['name'] == v[1].rsplit('::', 1)[-1]: return x['discr']
        return UNK

    def binop(self, op, a, b):
        a, b = _full(a), _full(b)
        if _has_unk(a) or _has_unk(b): return UNK
        o = op.replace('WithOverflow', '')
        try:
            r = {'Eq': lambda: a == b, 'Ne': lambda: a != b, 'Lt': lambda: a < b, 'Le': lambda: a <= b, 'Gt': lambda: a > b, 'Ge': lambda: a >= b,
                 'BitAnd': lambda: a & b, 'BitOr': lambda: a | b, 'BitXor': lambda: a ^ b, 'Add': lambda: a + b, 'Sub': lambda: a - b, 'Mul': lambda: a * b,
                 'Div': lambda: a / b}.get(o, lambda: UNK)()
        except Exception:
            return UNK
        return ['tuple', [r, False]] if op.endswith('WithOverflow') else r

    def rvalue(self, body, fr, rv):
        k = rv['k']
        if k == 'use': return self.operand(body, fr, rv['ops'][0])
        if k == 'ref':
            h = self.handle(fr, rv['pl'])
            return _Ref(h[0], h[1]) if h else UNK
        if k == 'bin': return self.binop(rv['op'], self.operand(body, fr, rv['ops'][0]), self.operand(body, fr, rv['ops'][1]))
        if k == 'un' and rv['op'] == 'PtrMetadata':
            tv, _r = self._target(self.operand(body, fr, rv['ops'][0]))
            return len(tv[1]) if isinstance(tv, list) and tv[0] == 'vec' else UNK
        if k == 'len':
            h = self.handle(fr, rv['pl']); tv = _nav(h[0].v, h[1]) if h else UNK
            return len(tv[1]) if isinstance(tv, list) and tv[0] == 'vec' else UNK
        if k == 'un':
            a = _full(self.operand(body, fr, rv['ops'][0]))
            if _has_unk(a): return UNK
            return (not a) if rv['op'] == 'Not' and isinstance(a, bool) else (-a if rv['op'] == 'Neg' else UNK)
        if k == 'cast':
            a = _full(self.operand(body, fr, rv['ops'][0]))
            if isinstance(a, bool) or not isinstance(a, (int, float)): return a
            return float(a) if rv.get('to') in ('f64', 'f32') else (int(a) if re.match(r'^[iu](8|16|32|64|128|size)$', rv.get('to') or '') and a == a and abs(a) != float('inf') else a)
        if k == 'agg':
            ops = [self.operand(body, fr, o) for o in rv['ops']]
            if rv['adt'] in ('tuple', 'array'): return ['tuple', ops]
            if rv['adt'].startswith('closure:'): return ['closure', rv['adt'][8:], ops]
            return ['enum', rv['adt'], ops]
        if k == 'discr':
            h = self.handle(fr, rv['pl'])
            return self.discr(_nav(h[0].v, h[1])) if h else UNK
        return UNK

    # ---- calls
    def call(self, body, fr, c, depth):
        args = [self.operand(body, fr, a) for a in c.args]
        nm = T.strip_generics_tail(c.name); item = c.item
        if item in ('eq', 'ne') and 'PartialEq' in c.name and len(args) == 2:
            r = self.binop('Eq', args[0], args[1])
            return r if r is UNK or item == 'eq' else (not r)
        if item in ('lt', 'le', 'gt', 'ge') and 'PartialOrd' in c.name and len(args) == 2:
            return self.binop(item.capitalize(), args[0], args[1])
        if T.NOT_CALL.search(c.name) and args:
            a = _full(args[0]); return (not a) if isinstance(a, bool) else UNK
        if 'f64' in c.name and item in ('abs', 'min', 'max', 'floor', 'ceil') and args:
            xs = [_full(a) for a in args]
            if any(_has_unk(x) or isinstance(x, list) for x in xs): return UNK
            import math
            return {'abs': lambda: abs(xs[0]), 'min': lambda: min(xs), 'max': lambda: max(xs), 'floor': lambda: float(math.floor(xs[0])), 'ceil': lambda: float(math.ceil(xs[0]))}[item]()
        if re.search(r'::(clone|deref|deref_mut|borrow|borrow_mut|as_ref|as_mut|into|from)$', nm) and len(args) == 1:
            a = args[0]
            if item == 'clone' and isinstance(a, _Ref): return _cp_val(_nav(a.cell.v, a.path))
            return a
        r = self.std_model(c, args)
        if r is not NotImplemented: return r
        cb = self.F.bodies.get(c.path) or self.F.bodies.get(c.name)
        if cb is not None and cb.kind in ('fn', 'closure') and depth < 3 and cb.name.startswith('qplib::'):
            if cb.kind == 'closure' and len(args) == 2 and isinstance(args[1], list) and args[1][0] == 'tuple' and cb.argc == 1 + len(args[1][-1]):
                args = [args[0]] + list(args[1][-1])
            if len(args) == cb.argc: return self.run(cb, args, depth + 1)
        # unknown callee: its result is unknown and whatever it may write through a `&mut` argument too
        for a, v in zip(c.args, args):
            if isinstance(v, _Ref) and a['k'] in ('copy', 'move') and '&mut' in body.locals[a['pl']['l']]: self.store(v.cell, v.path, UNK)
        return UNK

    # ---- model of the few std collection / iterator operations a loop over slices is written with (STD_MODEL lists them)
    STD_MODEL = {
        'len / is_empty':                 'length of a Vec / slice',
        'iter / iter_mut / into_iter':    'iterator over references to the elements (values for an owned Vec); identity on an iterator',
        'zip / enumerate / rev / copied / cloned / by_ref / chain': 'the adaptors without closures (those with closures are loops in the normal form)',
        'next':                           'on the iterators above and on `a..b`',
        'index / index_mut / get / get_mut': 'element access; out of range is a panic = probe undecided',
        'min / max':                      'on integers (`a.len().min(b.len())`)',
    }

    @staticmethod
    def _target(v):
        """the value a (chain of) reference(s) points to, and the last reference"""
        ref = None
        for _ in range(8):
            if isinstance(v, _Ref): ref = v; v = _nav(v.cell.v, v.path)
            else: break
        return v, ref

    def _as_iter(self, v):
        tv, ref = self._target(v)
        if isinstance(tv, _Iter): return tv
        if isinstance(tv, list) and tv[0] == 'vec':
            return _Iter([_Ref(c, []) for c in tv[1]] if ref is not None else [c.v for c in tv[1]])
        if isinstance(tv, list) and tv[0] == 'enum' and tv[1].endswith('ops::Range') and all(isinstance(x, int) for x in tv[-1]):
            return _Iter(list(range(tv[-1][0], tv[-1][1])))
        return None

    def std_model(self, c, args):
        item = c.item; n = len(args)
        if not args: return NotImplemented
        tv, ref = self._target(args[0])
        is_vec = isinstance(tv, list) and tv[0] == 'vec'
        if item == 'len' and is_vec: return len(tv[1])
        if item == 'is_empty' and is_vec: return len(tv[1]) == 0
        if item in ('iter', 'iter_mut', 'into_iter', 'by_ref', 'rev', 'copied', 'cloned', 'enumerate', 'zip', 'chain') and ('Iterator' in (c.trait or '') or item in ('iter', 'iter_mut')):
            it = self._as_iter(args[0])
            if it is None: return NotImplemented
            if item in ('iter', 'iter_mut', 'into_iter'): return it
            if item == 'by_ref': return args[0]
            rest = it.items[it.pos:]
            if item == 'rev': return _Iter(rest[::-1])
            if item in ('copied', 'cloned'): return _Iter([_cp_val(_full(x)) for x in rest])
            if item == 'enumerate': return _Iter([['tuple', [i, x]] for i, x in enumerate(rest)])
            other = self._as_iter(args[1]) if n == 2 else None
            if other is None: return NotImplemented
            o = other.items[other.pos:]
            return _Iter([['tuple', [x, y]] for x, y in zip(rest, o)]) if item == 'zip' else _Iter(rest + o)
        if item == 'next' and 'Iterator' in (c.trait or ''):
            if isinstance(tv, _Iter):
                if tv.pos < len(tv.items):
                    tv.pos += 1
                    return ['enum', 'std::option::Option::Some', [tv.items[tv.pos - 1]]]
                return ['enum', 'std::option::Option::None', []]
            if isinstance(tv, list) and tv[0] == 'enum' and tv[1].endswith('ops::Range') and ref is not None and all(isinstance(x, int) for x in tv[-1]):
                a, b = tv[-1]
                if a < b:
                    self.store(ref.cell, ref.path + [0], a + 1)
                    return ['enum', 'std::option::Option::Some', [a]]
                return ['enum', 'std::option::Option::None', []]
            return NotImplemented
        if item in ('index', 'index_mut', 'get', 'get_mut') and is_vec and n == 2:
            i = _full(args[1])
            if not isinstance(i, int) or isinstance(i, bool): return NotImplemented
            if 0 <= i < len(tv[1]):
                r = _Ref(tv[1][i], [])
                return r if item.startswith('index') else ['enum', 'std::option::Option::Some', [r]]
            if item.startswith('index'): raise ProbeUndecided('index out of range (panic)')
            return ['enum', 'std::option::Option::None', []]
        if item in ('min', 'max') and n == 2:
            a, b = _full(args[0]), _full(args[1])
            if all(isinstance(x, int) and not isinstance(x, bool) for x in (a, b)): return min(a, b) if item == 'min' else max(a, b)
        return NotImplemented

    def store(self, cell, path, val):
        if not path: cell.v = val; return
        par = _nav(cell.v, path[:-1])
        if isinstance(par, list) and path[-1] < len(par[-1]): par[-1][path[-1]] = val
        else: cell.v = UNK

    # ---- execution
    def run(self, body, args, depth=0, intercept=None, stop=()):
        """run `body` on concrete arguments; intercept = {block: fn(frame) -> value | 'stop'} replaces the call ending that block"""
        fr = [_Cell() for _ in body.locals]
        for i, a in enumerate(args): fr[i + 1].v = a
        calls = {c.bb: c for c in body.calls}
        bi = 0
        while True:
            self.budget -= 1
            if self.budget < 0: raise ProbeUndecided('step budget exhausted')
            if bi in stop: return fr[0].v
            blk = body.blocks[bi]
            for st in blk['st']:
                if 'dst' not in st: continue
                v = self.rvalue(body, fr, st['rv'])
                h = self.handle(fr, st['dst'])
                if h: self.store(h[0], h[1], v)
            t = blk['term']; k = t['k']
            if k in ('goto', 'drop', 'assert'): bi = t['t']
            elif k == 'return': return fr[0].v
            elif k == 'call':
                if intercept and bi in intercept:
                    v = intercept[bi](fr)
                    if isinstance(v, str) and v == 'stop': return fr[0].v
                else:
                    v = self.call(body, fr, calls[bi], depth)
                h = self.handle(fr, t['dst'])
                if h: self.store(h[0], h[1], v)
                if t['t'] < 0: raise ProbeUndecided('diverging call')
                bi = t['t']
            elif k == 'switch':
                v = _full(self.operand(body, fr, t['d']))
                if isinstance(v, bool): v = 1 if v else 0
                if not isinstance(v, int): raise ProbeUndecided('switch on an unknown value at %s' % body.site(bi))
                m = {a: b for a, b in t['ts']}
                bi = m.get(v, t['else'])
            else:
                raise ProbeUndecided('terminator ' + k)


def probe_loop_pass(ctx, b, lo, tree, leaf_values):
    """one pass of the `next` loop `lo` of b with the item built from `tree`, its leaves being references to the cells in leaf_values
    {label: _Cell}.  The code before the loop runs too (on unknown parameters), so locals it sets are there."""
    def build(t):
        if t[0] == 'leaf':
            if t[1] not in leaf_values: raise ProbeUndecided('item leaf %s has no sample' % t[1])
            return _Ref(leaf_values[t[1]], [])
        return ['tuple', [build(x) for x in t[1]]]
    seen = {'n': 0}
    def at_next(fr):
        seen['n'] += 1
        if seen['n'] > 1: return 'stop'
        return ['enum', 'std::option::Option::Some', [build(tree)]]
    Probe(ctx).run(b, [UNK] * b.argc, intercept={lo[0].bb: at_next})


# =============================================================================== C19.codes
CASE_FOLD = 'the format writes the letters in upper case; the reader may fold case before the test'


def char_tables(ctx, body):
    """switches on a char: list of dict(tab={LETTER: enum variant built only in that arm}, err=fall-through
    is an error, bb, enum=the enum the arms build, scrutinee=operand tested)"""
    out = []
    for bi in sorted(body.live):
        t = body.blocks[bi]['term']
        if t['k'] == 'switch' and t['d']['k'] != 'const' and body.locals[t['d']['pl']['l']] == 'char':
            tg_all = {tg for v, tg in t['ts']} | {t['else']}
            reach = {tg: body.reach([tg], stop=tg_all - {tg}) for tg in tg_all}
            tab = {}; enums = set()
            for v, tg in t['ts']:
                others = set()
                for o in tg_all - {tg}: others |= reach[o]
                reg = reach[tg] - others
                vs = sorted({st['rv']['adt'].split('qplib::parser::')[-1] for b2, st in body.stmts() if b2 in reg and st['rv']['k'] == 'agg' and 'qplib::parser::Prob' in st['rv']['adt']})
                key = chr(v).upper()        # CASE_FOLD
                val = vs[0] if len(vs) == 1 else vs
                if key in tab and tab[key] != val: val = sorted(set(([tab[key]] if isinstance(tab[key], str) else tab[key]) + ([val] if isinstance(val, str) else val)))
                tab[key] = val
                enums |= {x.split('::')[0] for x in vs}
            # the fall-through may hand a None / Err to the caller's `ok_or_else(..)?` (table moved into a helper returning Option): follow the variant
            lb = local_form(ctx, body)
            er = reach_ps(lb, [t['else']])
            err = bool(er & lb.err_exits()) and not (er & lb.strict_ok_exits())
            out.append(dict(tab=tab, err=err, bb=bi, enum=sorted(enums)[0] if len(enums) == 1 else None, scrutinee=t['d']))
    return out


def none_is_error(b, local, projs=(), depth=0):
    """how is the None case of the Option in `local` (or in field `projs` of a tuple in `local`) consumed?
    findings ('ok'|'bad', how) in the style of T.errflow.  Idioms:
       `o?`, `o.ok_or(..)?`, `o.ok_or_else(..)?`, `o.context(..)?`   (T.errflow)
       `match o { None => return Err, .. }`, `let Some(x) = o else { return Err }`  (switch whose None side reaches no Ok-exit)
       `a.zip(b)` is None as soon as one of them is: follow the zipped Option
       `match (a, b, c) { (Some(..), Some(..), Some(..)) => .., _ => return Err }`: follow the tuple field"""
    res = []
    if depth > 8: return [('bad', 'too deep')]
    oks = b.strict_ok_exits()
    projs = list(projs)
    for kind, bi, x in b.uses.get(local, ()):
        if kind == 'call':
            if projs: continue
            nm = T.strip_generics_tail(x.name)
            if re.search(r'option::Option::<.*>::zip$', nm):
                res += [(k, 'zip -> ' + h) for k, h in none_is_error(b, x.dst['l'], (), depth + 1)]
            elif T.TRY_BRANCH.search(x.name) or T.ERR_ADAPTORS.search(x.name) or T.ERR_BAD.search(x.name):
                pass            # decided by T.errflow below
            else:
                res.append(('bad', 'passed to ' + x.item))
        elif kind == 'stmt':
            rv = x['rv']
            if rv['k'] == 'discr' and [p for p in _projs(rv['pl'])] == [tuple(p) for p in projs] and rv['pl']['l'] == local:
                for k3, b3, sw in b.uses.get(x['dst']['l'], ()):
                    if k3 != 'switch': continue
                    m = {v: t for v, t in sw['ts']}
                    r = reach_ps(b, [m.get(0, sw['else'])])
                    res.append(('bad', 'None side of match reaches an Ok-exit') if r & oks else ('ok', 'match: None side reaches only Err-exits'))
            elif rv['k'] == 'use' and not x['dst']['p'] and rv['ops'][0]['k'] in ('copy', 'move') and rv['ops'][0]['pl']['l'] == local:
                src = _projs(rv['ops'][0]['pl'])
                if src == projs[:len(src)] and not any(isinstance(p, dict) and 'dc' in p for p in rv['ops'][0]['pl']['p']):
                    res += none_is_error(b, x['dst']['l'], projs[len(src):], depth + 1)
            elif rv['k'] == 'agg' and rv['adt'] == 'tuple' and not x['dst']['p'] and not projs:
                for i, o in enumerate(rv['ops']):
                    if o['k'] in ('copy', 'move') and o['pl']['l'] == local and not o['pl']['p']:
                        res += [(k, 'tuple.%d -> %s' % (i, h)) for k, h in none_is_error(b, x['dst']['l'], [(str(i), 'tuple')], depth + 1)]
    if not projs:
        ef = errflow_ps(b, local)
        # errflow does not know zip / tuples: its "passed to"/"no recognised consumer" verdicts are ours to give
        res += [(k, h) for k, h in ef if not (k == 'bad' and (h.startswith('passed to') or h.startswith('no recognised') or h.startswith('result unused')))]
    if not res: res.append(('bad', 'no recognised consumer'))
    return res


def codes_rules(ctx):
    R = 'C19.codes'
    b = ctx.method(R + '/problem-type/anchor', 'qplib::parser::ProblemType', 'from_str', trait='FromStr')
    if b is not None:
        tabs = char_tables(ctx, b)
        want = [
            ('ProbObjKind', {'L': 'ProbObjKind::Linear', 'D': 'ProbObjKind::DiagonalC', 'C': 'ProbObjKind::ConcaveOrConvex', 'Q': 'ProbObjKind::Quadratic'}, 'objective'),
            ('ProbVarKind', {'C': 'ProbVarKind::Continuous', 'B': 'ProbVarKind::Binary', 'M': 'ProbVarKind::Mixed', 'I': 'ProbVarKind::Integer', 'G': 'ProbVarKind::General'}, 'variables'),
            ('ProbConstrKind', {'N': 'ProbConstrKind::None', 'B': 'ProbConstrKind::Box', 'L': 'ProbConstrKind::Linear', 'D': 'ProbConstrKind::DiagonalConvex', 'C': 'ProbConstrKind::Convex', 'Q': 'ProbConstrKind::Quadratic'}, 'constraints'),
        ]
        # one table per kind enum, found by what its arms build (not by the order of the switches)
        by_enum = {}
        for tb in tabs:
            if tb['enum']: by_enum.setdefault(tb['enum'], []).append(tb)
        ctx.check(all(len(by_enum.get(e, [])) == 1 for e, w, what in want), R + '/problem-type/three-letters', 'T-TABLE', b.name,
                  'expected one code-letter table per kind (objective, variables, constraints), found %s' % {e: len(v) for e, v in by_enum.items()}, b.site())
        letters = {}
        for enum, w, what in want:
            for tb in by_enum.get(enum, [])[:1]:
                ctx.check(tb['tab'] == w, R + '/problem-type/' + what, 'T-TABLE', b.name, '%s code table is %s, the format defines %s' % (what, tb['tab'], w), b.site(tb['bb']), table=str(tb['tab']))
                ctx.check(tb['err'], R + '/problem-type/%s/unknown-is-error' % what, 'T-TABLE', b.name, 'an unknown %s code is not an error' % what, b.site(tb['bb']))
                letters[what] = [c for c in origin_calls(b, tb['scrutinee']) if c.item == 'next' and (c.trait or '').endswith('Iterator')]
        # order of the letters: the objective table tests the first char taken from the string, variables the second, constraints the third
        nexts = {id(c): c for cs in letters.values() for c in cs}
        nexts.update({id(c): c for c in b.calls if c.item == 'next' and (c.trait or '').endswith('Iterator') and 'std::str::Chars' in c.name})
        nexts = sorted(nexts.values(), key=lambda c: c.bb)
        pos = {}
        for what, cs in letters.items():
            if len(cs) == 1:
                pos[what] = sum(1 for o in nexts if o is not cs[0] and b.dominates(o.bb, cs[0].bb))
        if len(pos) == 3 and len(nexts) == 3:
            ctx.check(pos == {'objective': 0, 'variables': 1, 'constraints': 2}, R + '/problem-type/letter-order', 'T-CARRY', b.name,
                      'the letters are not used as (objective, variables, constraints): %s' % pos, b.site())
        else:
            # weaker condition that is still checked: the three kinds go into ProblemType in declaration order (type-checked) and every table has a scrutinee
            aggs = [st for bi, st in b.stmts() if st['rv']['k'] == 'agg' and st['rv']['adt'].endswith('parser::ProblemType')]
            ctx.check(bool(aggs), R + '/problem-type/letter-order/built', 'T-CARRY', b.name, 'no ProblemType is built', b.site())
            ctx.undecided(R + '/problem-type/letter-order', 'T-CARRY', b.site(), 'cannot trace each table\'s scrutinee to one of three `chars.next()` calls: %s' % {k: len(v) for k, v in letters.items()})
        # too short => error: the None of every letter read ends in an Err-exit
        bad = []; n = 0
        for c in nexts:
            n += 1
            bad += ['%s: %s' % (b.site(c.bb), h) for k, h in none_is_error(b, c.dst['l']) if k == 'bad']
        ctx.check(n >= 1 and not bad, R + '/problem-type/too-short-is-error', 'T-ERRFLOW', b.name, 'fewer than three letters: %s' % ('; '.join(sorted(set(bad))) or 'no letter read found'), b.site())
    b = ctx.method(R + '/sense/anchor', 'qplib::parser::ObjSense', 'from_str', trait='FromStr')
    if b is not None:
        tab = literal_table(b)
        ctx.check(set(tab) == {'minimize', 'maximize'}, R + '/sense/keywords', 'T-TABLE', b.name, 'sense keywords %s' % sorted(tab), b.site())
        rows = {}
        for lit, (t, f, c) in tab.items():
            reg = b.reach([t]) - (b.reach([f]) if f is not None else set())
            rows[lit] = sorted({st['rv']['adt'].split('::')[-1] for bi, st in b.stmts() if bi in reg and st['rv']['k'] == 'agg' and 'ObjSense::' in st['rv']['adt']})
        ctx.check(rows == {'minimize': ['Minimize'], 'maximize': ['Maximize']}, R + '/sense/mapping', 'T-BRANCHFX', b.name, 'sense keywords map to %s' % rows, b.site())
        lb = local_form(ctx, b)
        rest = reach_ps(lb, [0], stop={t for t, f, c in tab.values()})
        ctx.check(any(st['rv']['k'] == 'agg' and st['rv']['adt'].endswith('ParseErrorReason::InvalidObjSense') for bi, st in lb.stmts() if bi in rest) and not (rest & lb.strict_ok_exits()), R + '/sense/unknown-is-error', 'T-TABLE', b.name, 'unknown sense is not InvalidObjSense', b.site())
    b = ctx.method(R + '/var-type/anchor', 'qplib::parser::VarType', 'from_str', trait='FromStr')
    if b is not None:
        tab = literal_table(b)
        rows = {}
        for lit, (t, f, c) in tab.items():
            reg = b.reach([t]) - (b.reach([f]) if f is not None else set())
            rows[lit] = sorted({st['rv']['adt'].split('::')[-1] for bi, st in b.stmts() if bi in reg and st['rv']['k'] == 'agg' and 'VarType::' in st['rv']['adt']})
        ctx.check(rows == {'0': ['Continuous'], '1': ['Integer'], '2': ['Binary']}, R + '/var-type/mapping', 'T-TABLE', b.name, 'variable type codes map to %s' % rows, b.site(), table=str(rows))
        lb = local_form(ctx, b)
        rest = reach_ps(lb, [0], stop={t for t, f, c in tab.values()})
        ctx.check(any(st['rv']['k'] == 'agg' and st['rv']['adt'].endswith('ParseErrorReason::InvalidVarType') for bi, st in lb.stmts() if bi in rest) and not (rest & lb.strict_ok_exits()), R + '/var-type/unknown-is-error', 'T-TABLE', b.name, 'unknown variable type is not InvalidVarType', b.site())
    # objective sense: the value that reaches Instance.sense, per ObjSense variant.  Anchored on `convert` and the field, not on a helper:
    # the mapping may sit in a helper (`convert_sense(qplib.sense)`) or in `convert` itself (`instance.set_sense(match qplib.sense {..})`).
    conv = ctx.free_fn(R + '/convert-sense/anchor', 'qplib::convert::convert')
    if conv is not None:
        sinks = sense_sinks(ctx, conv)
        if not sinks:
            ctx.lost(R + '/convert-sense/mapping', 'no value reaches v1::Instance.sense in qplib::convert::convert (SENSE_SINK_IDIOMS)')
        else:
            def senses_in(body):
                return lambda reg: sorted({re.search(r'Sense::(\w+)', o['v']).group(1) for b2, st in body.stmts() if b2 in reg for o in st['rv'].get('ops', []) if o['k'] == 'const' and re.search(r'instance::Sense::(\w+)', o['v'])}
                                          | {st['rv']['adt'].split('::')[-1] for b2, st in body.stmts() if b2 in reg and st['rv']['k'] == 'agg' and 'instance::Sense::' in st['rv']['adt']})
            rows = {}; where = conv
            for how, op in sinks:
                helpers = [ctx.F.bodies[c.path] for c in origin_calls(conv, op) if c.path in ctx.F.bodies and c.path.startswith('qplib::') and ctx.F.bodies[c.path].kind == 'fn']
                bodies = helpers or [conv]
                for hb in bodies:
                    ctx.fn(hb); where = hb
                    r = enum_rows(ctx, hb, 'qplib::parser::ObjSense', senses_in(hb))
                    for k, v in r.items(): rows[k] = sorted(set(rows.get(k, [])) | set(v))
            ctx.check(rows == {'Minimize': ['Minimize'], 'Maximize': ['Maximize']}, R + '/convert-sense/mapping', 'T-BRANCHFX', where.name, 'ObjSense maps to %s' % rows, where.site(),
                      sinks=sorted({h for h, o in sinks}))


# how a value may be put into Instance.sense (sense_sinks); one entry per idiom
SENSE_SINK_IDIOMS = {
    'literal':  '`v1::Instance { sense: X, .. }` (a field taken over from `..Default::default()` / `..other` is not a sink)',
    'assign':   '`instance.sense = X`',
    'setter':   '`instance.set_sense(X)` (prost setter: stores `X as i32`)',
}


def sense_sinks(ctx, conv):
    out = []
    for bi, st in find_aggregates(conv, 'v1::Instance'):
        op = agg_field_operand(st, 'sense')
        if op is None or op['k'] not in ('copy', 'move'):
            if op is not None: out.append(('literal', op))
            continue
        # struct update syntax: the operand is the same field of another Instance value
        if fields_of_place(op['pl'])[-1:] == [('v1::Instance', 'sense')]: continue
        out.append(('literal', op))
    for bi, st in conv.stmts():
        if st['dst']['p'] and fields_of_place(st['dst'])[-1:] == [('v1::Instance', 'sense')] and st['rv'].get('ops'): out.append(('assign', st['rv']['ops'][0]))
    for c in conv.calls:
        if c.item == 'set_sense' and 'Instance' in c.name and len(c.args) == 2: out.append(('setter', c.args[1]))
    return out


# =============================================================================== C19.sections
def from_lines(ctx):
    bs = [b for b in ctx.F.bodies.values() if b.kind == 'fn' and b.hdr.get('self') == QF and b.hdr.get('item') == 'from_lines']
    return bs[0] if len(bs) == 1 else None


# how a test on a kind letter may be written; each form is evaluated under "the kind is variant V" by reach_under
KIND_TEST_IDIOMS = {
    'match':    '`match kind { K::A | K::B => .., _ => .. }`: switch on the discriminant of a local of the enum type',
    'matches':  '`matches!(kind, K::A | K::B)` and `let flag = ..; if flag`: bool assigned a literal in the arms, then copied / negated / tested later',
    'eq':       '`kind == K::A`, `kind != K::A` (derived PartialEq against a constant variant), possibly stored in a bool first',
}


def place_type(ctx, b, pl):
    """type of a place: the local's type taken through derefs and struct fields (field types from the ADT table); None if not known"""
    ty = b.locals[pl['l']].strip()
    for p in pl['p']:
        if p == '*':
            ty = re.sub(r"^&('\w+ )?(mut )?", '', ty).strip()
        elif isinstance(p, dict) and 'f' in p:
            ty = re.sub(r"^&('\w+ )?(mut )?", '', ty).strip()
            adt = ctx.F.adts.get(ty) or ctx.F.adts.get(re.sub(r'<.*>$', '', ty))
            if adt is None or len(adt.get('variants', [])) != 1: return None
            fs = [f for f in adt['variants'][0]['fields'] if f['name'] == p['f']]
            if not fs: return None
            ty = fs[0]['ty'].strip()
        elif isinstance(p, dict) and 'dc' in p: continue
        else: return None
    return ty


def reach_under(ctx, b, ty, variant):
    """blocks reachable from the entry when every test on an enum local of type `ty` is decided as if its value were `variant`
    (dict with 'discr' and 'name').  Bools are folded flow-insensitively: a bool local all of whose reachable definitions give the same
    truth value under the assumption is that value everywhere (KIND_TEST_IDIOMS)."""
    def is_ty(l): return b.locals[l].replace('&', '').strip().split('::')[-1] == ty

    def is_ty_place(pl):
        """a local of the enum type (behind references), or a field of that type: `match qplib.sense`, `self.kind == K::V`"""
        if all(p == '*' for p in pl['p']): return is_ty(pl['l'])
        t = place_type(ctx, b, pl)
        return t is not None and t.replace('&', '').strip().split('::')[-1] == ty

    def kind_local(a):
        """is the operand (a reference to / a copy of) a value of the enum type itself?"""
        pl = a['pl']
        for _ in range(6):
            if is_ty_place(pl): return True
            if [p for p in pl['p'] if p != '*']: return False
            ds = [d for d in b.defs_of(pl['l'])]
            if len(ds) != 1 or ds[0][0] != 'stmt' or ds[0][2]['dst']['p']: return False
            rv = ds[0][2]['rv']
            pl = rv['pl'] if rv['k'] == 'ref' else (rv['ops'][0]['pl'] if rv['k'] == 'use' and rv['ops'][0]['k'] in ('copy', 'move') else None)
            if pl is None: return False
        return False

    def enum_eq(c):
        """truth value of `a == K::V` / `a != K::V` under the assumption, or None"""
        if c.item not in ('eq', 'ne') or 'PartialEq' not in (c.trait or '') or len(c.args) != 2: return None
        sides = []
        for a in c.args:
            v = enum_variant_of_operand(ctx, b, a)
            if isinstance(v, str) and ('::%s::' % ty) in v: sides.append(('const', v.split('::')[-1]))
            elif a['k'] in ('copy', 'move') and kind_local(a): sides.append(('var', None))
            else: return None
        if sorted(s[0] for s in sides) != ['const', 'var']: return None
        k = [s[1] for s in sides if s[0] == 'const'][0]
        return (k == variant['name']) == (c.item == 'eq')

    known = {}
    for _ in range(12):
        seen = set(); work = [0]
        while work:
            x = work.pop()
            if x in seen: continue
            seen.add(x)
            t = b.blocks[x]['term']; succs = b.succ(x)
            if t['k'] == 'switch' and t['d']['k'] != 'const' and not t['d']['pl']['p']:
                dl = t['d']['pl']['l']; m = {v: tg for v, tg in t['ts']}
                if dl in known: succs = [m.get(1 if known[dl] else 0, t['else'])]
                else:
                    for k2, b2, d in b.defs_of(dl):
                        if k2 == 'stmt' and d['rv']['k'] == 'discr' and is_ty_place(d['rv']['pl']):
                            succs = [m.get(variant['discr'], t['else'])]
            for s_ in succs:
                if not b.blocks[s_]['cleanup']: work.append(s_)
        new = {}
        for l, ty_l in enumerate(b.locals):
            if ty_l != 'bool' or l <= b.argc: continue
            vals = set()
            for k2, bi, d in b.defs_of(l):
                if bi not in seen: continue
                v = None
                if k2 == 'stmt' and not d['dst']['p']:
                    rv = d['rv']; o = rv['ops'][0] if rv.get('ops') else None
                    if rv['k'] == 'use' and o['k'] == 'const' and o['v'] in ('true', 'false'): v = (o['v'] == 'true')
                    elif rv['k'] == 'use' and o['k'] in ('copy', 'move') and not o['pl']['p'] and o['pl']['l'] in known: v = known[o['pl']['l']]
                    elif rv['k'] == 'un' and rv['op'] == 'Not' and o['k'] in ('copy', 'move') and not o['pl']['p'] and o['pl']['l'] in known: v = not known[o['pl']['l']]
                elif k2 == 'call':
                    c = [y for y in b.calls if y.bb == bi][0]
                    if T.NOT_CALL.search(c.name) and c.arg_local(0) in known: v = not known[c.arg_local(0)]
                    else: v = enum_eq(c)
                vals.add(v)
            if len(vals) == 1 and None not in vals: new[l] = vals.pop()
        if new == known: break
        known = new
    return seen


def section_rules(ctx):
    R = 'C19.sections'
    b = from_lines(ctx)
    if b is None:
        ctx.lost(R, 'QplibFile::from_lines'); return
    ctx.fn(b)
    # which cursor reads feed which field of the result, and under which kind letters they are skipped
    aggs = find_aggregates(b, QF)
    ctx.check(len(aggs) == 1, R + '/aggregate', 'T-CARRY', b.name, 'expected one QplibFile aggregate', b.site())
    if len(aggs) != 1: return
    bi, st = aggs[0]
    want_reader = {'q0_non_zeroes': 'collect_ij_val', 'b0_non_defaults': 'collect_i_val', 'qs_non_zeroes': 'collect_list_of_ij_val', 'bs_non_zeroes': 'collect_list_of_i_val',
                   'constr_lower_cs': 'collect_list', 'constr_upper_cs': 'collect_list', 'lower_bounds': 'collect_list', 'upper_bounds': 'collect_list',
                   'var_names': 'collect_i_val', 'constr_names': 'collect_i_val', 'default_b0': 'next_parse', 'obj_constant': 'next_parse', 'infinity_threshold': 'next_parse',
                   'num_vars': 'next_parse', 'sense': 'next_parse', 'name': 'expect_next'}
    readers = {}
    for f, rd in want_reader.items():
        s = slice_op(ctx, b, agg_field_operand(st, f))
        got = sorted({c.item for c in s.call_objs if c.path.startswith('qplib::parser::FileCursor')})
        readers[f] = [c for c in direct_calls(b, agg_field_operand(st, f), rd) if c.path.startswith('qplib::parser::FileCursor')] or \
            ([c for c in sorted(s.call_objs, key=lambda c: c.line) if c.item == rd and c.path.startswith('qplib::parser::FileCursor')][:1] if f == 'name' else [])
        ctx.check(bool(readers[f]), R + '/reader/' + f, 'T-CARRY', b.name, 'QplibFile.%s is not read with %s (readers in its slice: %s)' % (f, rd, got), b.site(bi))
    seq = [c for c in b.calls if c.path.startswith('qplib::parser::FileCursor') and c.item != 'new']
    # skipping rules keyed by the problem-type letters
    kinds = {'ProbObjKind': ctx.F.adt('qplib::parser::ProbObjKind'), 'ProbVarKind': ctx.F.adt('qplib::parser::ProbVarKind'), 'ProbConstrKind': ctx.F.adt('qplib::parser::ProbConstrKind')}
    _ru = {}
    def ru(ty, v):
        key = (ty, v['discr'])
        if key not in _ru: _ru[key] = reach_under(ctx, b, ty, v)
        return _ru[key]
    def skipped_under(call):
        res = {}
        for ty, adt in kinds.items():
            if not adt: continue
            sk = set()
            for v in adt['variants']:
                if call.bb not in ru(ty, v): sk.add(v['name'])
            if sk: res[ty] = sk
        return res
    def chk(field, idx, want, what):
        cs = readers.get(field) or []
        if not cs: return
        c = cs[0]
        got = None
        for x in cs:
            sk = skipped_under(x)
            got = sk if got is None else {k: got[k] & sk[k] for k in got if k in sk and (got[k] & sk[k])}
        ctx.check(got == want, R + '/skip/' + field, 'T-BRANCHFX', b.name, '%s is skipped under %s, the format says %s' % (what, {k: sorted(v) for k, v in got.items()}, {k: sorted(v) for k, v in want.items()}), b.site(c.bb), table=str(got))
    NB = {'ProbConstrKind': {'None', 'Box'}}
    chk('q0_non_zeroes', 0, {'ProbObjKind': {'Linear'}}, 'the Q0 section')
    chk('qs_non_zeroes', 0, {'ProbConstrKind': {'None', 'Box', 'Linear'}}, 'the Qi section')
    chk('bs_non_zeroes', 0, NB, 'the bi section')
    chk('constr_lower_cs', 0, NB, 'the constraint lower-bound section')
    chk('constr_upper_cs', 0, NB, 'the constraint upper-bound section')
    chk('lower_bounds', 0, {'ProbVarKind': {'Binary'}}, 'the variable lower-bound section')
    chk('upper_bounds', 0, {'ProbVarKind': {'Binary'}}, 'the variable upper-bound section')
    # number of constraints: 0 for N/B, else read
    ncs = agg_field_operand(st, 'num_constraints')
    s = slice_op(ctx, b, ncs)
    npc = direct_calls(b, ncs, 'next_parse') or [c for c in s.call_objs if c.item == 'next_parse']
    ok = bool(npc) and any(skipped_under(c) == NB for c in npc) and s.has_const(r'^0_usize$')
    ctx.check(ok, R + '/skip/num_constraints', 'T-BRANCHFX', b.name, 'number of constraints is not {N,B => 0, otherwise read}', b.site())
    # variable types: C/B/I derive from the letter, M/G read the section
    vt = slice_op(ctx, b, agg_field_operand(st, 'var_types'))
    cl = [c for c in vt.call_objs if c.item == 'collect_list']
    okv = bool(cl) and any(skipped_under(c) == {'ProbVarKind': {'Continuous', 'Binary', 'Integer'}} for c in cl)
    ctx.check(okv, R + '/skip/var_types', 'T-BRANCHFX', b.name, 'the variable-type section must be read exactly for M and G problems', b.site())
    # which type a letter stands for: under "variables letter == V" the only VarType that can be written down is V's (none for M and G, which read them)
    rows = enum_rows(ctx, b, 'qplib::parser::ProbVarKind', lambda reg: sorted({st2['rv']['adt'].split('::')[-1] for b2, st2 in b.stmts() if b2 in reg and st2['rv']['k'] == 'agg' and 'VarType::' in st2['rv']['adt']}))
    want_rows = {'Continuous': ['Continuous'], 'Binary': ['Binary'], 'Integer': ['Integer'], 'Mixed': [], 'General': []}
    ctx.check(rows == want_rows, R + '/var-types-from-letter', 'T-TABLE', b.name, 'letter-derived variable types are %s, expected %s' % (rows, want_rows), b.site())
    vartype_rules(ctx, b, st, kinds, ru)
    count_rules(ctx, b, st, readers)
    # binary problems: bounds [0,1] -- the only float literal that can become a lower bound is 0, an upper bound 1
    # (`vec![0.; n]`, `repeat(0.).take(n).collect()`, a helper: any way of filling; which of the two is which is part of the rule)
    def fill_literals(field):
        """float literals that can become elements of the list without being read from the file: what goes into the calls that
        directly produce the value (origin_calls), cursor reads excepted; the slice of the value if no such call is found"""
        lit = re.compile(r'^-?[0-9.E+-]+f64$'); out = set()
        op = agg_field_operand(st, field)
        cs = [c for c in origin_calls(b, op) if not c.path.startswith('qplib::parser::FileCursor')]
        if not cs: return {c for c in slice_op(ctx, b, op).consts if lit.match(c)}
        for c in cs:
            for a in c.args:
                if a['k'] == 'const':
                    if lit.match(a['v']): out.add(a['v'])
                else: out |= {x for x in slice_op(ctx, b, a).consts if lit.match(x)}
        return out
    cl_ = fill_literals('lower_bounds'); cu_ = fill_literals('upper_bounds')
    ctx.check('0f64' in cl_ and '1f64' not in cl_ and '1f64' in cu_ and '0f64' not in cu_, R + '/binary-bounds', 'T-CONST', b.name,
              'bounds of an all-binary problem: lower bounds can be filled with %s, upper bounds with %s; expected 0 and 1' % (sorted(cl_), sorted(cu_)), b.site())
    # every cursor error is propagated
    errflow_calls_ps(ctx, 'C19.errors/from_lines/propagate', b, seq, 'cursor error')
    # one read per section of the format at least (25 sections: name, type, sense, n, m, Q0, b0 default, b0, q0, Qi, bi, infinity, c_l, c_u, l, u, types,
    # x0 default, x0, y0 default, y0, z0 default, z0, variable names, constraint names)
    ctx.check(len(seq) >= 25, 'C19.errors/from_lines/reads', 'T-ERRFLOW', b.name, 'only %d cursor reads found, the format has 25 sections' % len(seq), b.site())
    # the format is positional: read X comes before read Y iff Y can follow X on some path and X can never follow Y
    # (from_lines reads each section once; the reads need not dominate each other: `if has_c { read lower }; if has_c { read upper }`)
    def before(x, y): return x.bb != y.bb and y.bb in b.reach([x.bb]) and x.bb not in b.reach([y.bb])
    # lower before upper: for each pair the lower read comes first in the file order
    for lo_f, up_f in (('constr_lower_cs', 'constr_upper_cs'), ('lower_bounds', 'upper_bounds')):
        a = readers.get(lo_f); c = readers.get(up_f)
        if a and c:
            ctx.check(before(a[0], c[0]), R + '/order/%s-before-%s' % (lo_f, up_f), 'T-BRANCHFX', b.name, '%s is read after %s' % (lo_f, up_f), b.site(a[0].bb))
    # positional order of the scalar sections
    def first(field):
        cs = readers.get(field) or []
        return cs[0] if cs else None
    chain = ['name', 'sense', 'num_vars', 'default_b0', 'b0_non_defaults', 'obj_constant', 'infinity_threshold', 'var_names', 'constr_names']
    for x, y in zip(chain, chain[1:]):
        cx, cy = first(x), first(y)
        if cx and cy:
            ctx.check(before(cx, cy), R + '/order/%s-then-%s' % (x, y), 'T-BRANCHFX', b.name, '%s is not read before %s' % (x, y), b.site(cx.bb))
    q0 = first('q0_non_zeroes'); d0 = first('default_b0')
    if q0 and d0:
        ctx.check(before(q0, d0), R + '/order/q0-then-b0', 'T-BRANCHFX', b.name, 'Q0 is not read before b0', b.site(q0.bb))


# which count the indices of a section range over / how many entries a list section has (QPLIB: i, j are variable indices, the list position
# of Q^i / b^i and the keys of y and of the constraint names are constraint indices)
SECTION_RANGE = {'q0_non_zeroes': 'num_vars', 'b0_non_defaults': 'num_vars', 'qs_non_zeroes': 'num_vars', 'bs_non_zeroes': 'num_vars',
                 'starting_x': 'num_vars', 'starting_z': 'num_vars', 'var_names': 'num_vars',
                 'starting_y': 'num_constraints', 'constr_names': 'num_constraints'}
SECTION_LENGTH = {'lower_bounds': 'num_vars', 'upper_bounds': 'num_vars', 'var_types': 'num_vars',
                  'constr_lower_cs': 'num_constraints', 'constr_upper_cs': 'num_constraints', 'qs_non_zeroes': 'num_constraints', 'bs_non_zeroes': 'num_constraints'}


LEN_CHANGERS = ('push', 'push_back', 'resize', 'resize_with', 'truncate', 'pop', 'insert', 'remove', 'swap_remove', 'extend', 'extend_from_slice', 'append', 'clear', 'drain', 'retain',
                'dedup', 'dedup_by', 'dedup_by_key', 'split_off', 'set_len')


def returned_vec_length(ctx, body, param, depth=4):
    """problems with "the Vec this reader returns has exactly `param` elements on every success path": it must be allocated from the count
    (`vec![x; n]`, `repeat(x).take(n).collect()`, `resize(n, x)` once on an empty Vec) -- not grown as entries arrive -- and never change its
    length afterwards; a reader that only delegates (`self.consume_list_of_maps(size, ..)`) is decided in the callee"""
    probs = []
    def is_param(o):
        return o['k'] in ('copy', 'move') and T.strip_wrappers(T.expr(body, o)) == ('place', param, [])
    rets = []
    for bi, st in body.stmts():
        if st['dst'] == {'l': 0, 'p': []} and st['rv']['k'] == 'agg' and st['rv']['adt'].endswith('Result::Ok') and st['rv']['ops']: rets.append(('agg', bi, st['rv']['ops'][0]))
    for c in body.calls:
        if c.dst == {'l': 0, 'p': []} and 'FromResidual' not in c.name: rets.append(('call', c.bb, c))
    if not rets: return ['no success value found in %s' % body.name.split('::')[-1]]
    for kind, bi, x in rets:
        if kind == 'call':
            cb = ctx.F.bodies.get(x.path) or ctx.F.bodies.get(x.name)
            ks = [i + 1 for i, a in enumerate(x.args) if is_param(a)]
            if cb is None or cb.kind != 'fn' or len(ks) != 1 or depth <= 0: probs.append('%s: the result comes from `%s`, which is not given the count' % (body.site(bi), x.item)); continue
            probs += returned_vec_length(ctx, cb, ks[0], depth - 1); continue
        root = value_root(body, x)
        ds = [d for d in body.defs_of(root) if not (d[0] == 'stmt' and d[2]['dst']['p'])] if root is not None else []
        alloc = None
        if len(ds) == 1 and ds[0][0] == 'call':
            c = [y for y in body.calls if y.bb == ds[0][1]][0]
            if c.item == 'from_elem' and len(c.args) == 2 and is_param(c.args[1]): alloc = 'vec![x; n]'
            elif c.item in ('collect', 'from_iter') and any(y.item == 'take' and len(y.args) == 2 and is_param(y.args[1]) for y in ctx.S.slice_operand(body, c.args[0]).call_objs): alloc = 'take(n).collect()'
        changers = [c for c in body.calls if c.item in LEN_CHANGERS and c.args and c.args[0]['k'] in ('copy', 'move') and value_root(body, c.args[0]) == root and 'Vec' in c.name]
        if alloc is None and len(changers) == 1 and changers[0].item == 'resize' and len(changers[0].args) == 3 and is_param(changers[0].args[1]) and innermost_loop(body, changers[0].bb) is None:
            alloc = 'resize(n, x)'; changers = []
        if alloc is None: probs.append('%s: the returned list is not allocated from the declared count' % body.site(bi))
        if changers: probs.append('%s: the length of the returned list is changed by %s' % (body.site(changers[0].bb), sorted({c.item for c in changers})))
    return probs


def count_rules(ctx, b, st, readers):
    """(1) every list section is read / filled with the length the format gives it; (2) wherever an index taken from a section is compared
    with a count (a validation such as `keys().all(|&i| i < limit)`, written anywhere, also in a helper new on this tree), the count is the one
    the section's indices range over.  (2) has no instance on a tree that does not validate."""
    R = 'C19.sections'
    def holders(op):
        out = set(); work = [op['pl']['l']] if op is not None and op['k'] in ('copy', 'move') else []
        while work:
            l = work.pop()
            if l in out: continue
            out.add(l)
            for k, bb, d in b.defs_of(l):
                if k == 'stmt' and not d['dst']['p'] and d['rv']['k'] == 'use' and d['rv']['ops'][0]['k'] in ('copy', 'move') and not d['rv']['ops'][0]['pl']['p']: work.append(d['rv']['ops'][0]['pl']['l'])
        return out
    H = {f: holders(agg_field_operand(st, f)) for f in st['rv']['fields']}
    def count_kind(o):
        """'num_vars' / 'num_constraints' if the operand is that count itself (through plain copies, casts, helper parameters)"""
        for _ in range(12):
            if o['k'] not in ('copy', 'move') or [p for p in o['pl']['p'] if p != '*']: return None
            l = o['pl']['l']
            hit = [k for k in ('num_vars', 'num_constraints') if l in H.get(k, ())]
            if hit: return hit[0] if len(hit) == 1 else None
            ds = [d for d in b.defs_of(l) if not (d[0] == 'stmt' and d[2]['dst']['p'])]
            if len(ds) != 1 or ds[0][0] != 'stmt': return None
            rv = ds[0][2]['rv']
            if rv['k'] in ('use', 'cast'): o = rv['ops'][0]
            elif rv['k'] == 'ref': o = {'k': 'copy', 'pl': rv['pl']}
            else: return None
        return None
    # (1) lengths
    for f, want in SECTION_LENGTH.items():
        op = agg_field_operand(st, f)
        sized = []
        for c in origin_calls(b, op) if op is not None else []:
            if c.path.startswith('qplib::parser::FileCursor') and c.item in ('collect_list', 'collect_list_of_i_val', 'collect_list_of_ij_val') and len(c.args) == 2: sized.append((c, c.args[1]))
            elif c.item == 'from_elem' and len(c.args) == 2: sized.append((c, c.args[1]))
        got = sorted({str(count_kind(a)) for c, a in sized})
        if not sized: continue          # e.g. var_types of I problems come out of integer_to_binary; the reader rules report a missing reader
        ctx.check(got == [want], R + '/length/' + f, 'T-CARRY', b.name, 'QplibFile.%s is read / filled with length %s, the format says %s' % (f, got, want), b.site(sized[0][0].bb))
    # (1b) the list a reader returns has exactly the length it was given (so zipping the lists later loses nothing)
    done = set()
    for f, want in SECTION_LENGTH.items():
        op = agg_field_operand(st, f)
        for c in origin_calls(b, op) if op is not None else []:
            if not (c.path.startswith('qplib::parser::FileCursor') and c.item in ('collect_list', 'collect_list_of_i_val', 'collect_list_of_ij_val') and len(c.args) == 2) or c.item in done: continue
            done.add(c.item)
            cb = ctx.F.bodies.get(c.path) or ctx.F.bodies.get(c.name)
            if cb is None: ctx.lost(R + '/returned-length/' + c.item, c.path); continue
            probs = returned_vec_length(ctx, cb, 2)
            ctx.check(not probs, R + '/returned-length/' + c.item, 'T-LOOPMUST', cb.name, 'the list returned by %s need not have the declared number of elements: %s' % (c.item, '; '.join(probs[:3])), cb.site())
    # (2) index validations
    inv = {}
    for f in SECTION_RANGE:
        for l in H.get(f, ()): inv.setdefault(l, set()).add(f)
    for b2, s2 in b.stmts():
        rv = s2['rv']
        if not (rv['k'] == 'bin' and rv['op'] in ('Lt', 'Le', 'Gt', 'Ge') and rv.get('ty') == 'usize'): continue
        kinds = [count_kind(o) for o in rv['ops']]
        for i in (0, 1):
            if kinds[i] is None or kinds[1 - i] is not None: continue
            secs = sorted({f for l in ctx.S.slice_operand(b, rv['ops'][1 - i]).locals for f in inv.get(l, ())})
            if not secs: continue
            if len(secs) > 1:
                ctx.undecided(R + '/index-range', 'T-CARRY', b.site(b2), 'an index compared with %s may come from several sections: %s' % (kinds[i], secs)); continue
            ctx.check(SECTION_RANGE[secs[0]] == kinds[i], R + '/index-range/' + secs[0], 'T-CARRY', b.name,
                      'an index of the section %s is checked against %s; its indices range over %s' % (secs[0], kinds[i], SECTION_RANGE[secs[0]]), b.site(b2))


# =============================================================================== C19.tokens
# declared names (and every other field) are the whitespace-separated tokens of the line as it stands: the line is split on whitespace only,
# the thing that is split is the whole line, and nothing cuts characters out of it
STR_SPLITS = ('split', 'rsplit', 'splitn', 'rsplitn', 'split_terminator', 'rsplit_terminator', 'split_inclusive', 'split_once', 'rsplit_once')
WS_SPLITS = ('split_whitespace', 'split_ascii_whitespace')
STR_CUTTERS = ('find', 'rfind', 'split_at', 'split_at_checked', 'trim_matches', 'trim_start_matches', 'trim_end_matches', 'strip_prefix', 'strip_suffix', 'replace', 'replacen',
               'char_indices', 'match_indices', 'rmatch_indices', 'matches', 'truncate', 'drain', 'retain', 'get', 'get_unchecked', 'index', 'pop', 'remove')
# views of the same text (leading / trailing whitespace is not part of any token)
STR_VIEWS = re.compile(r'::(deref|as_str|as_ref|borrow|trim|trim_start|trim_end|trim_ascii|trim_ascii_start|trim_ascii_end|clone|to_owned|to_string|as_mut_str|branch|into|from)(::<.*>)?$')


def _is_str_call(c):
    return bool(re.match(r'^((core|std|alloc)::str::<impl str>::|<&?(mut )?str as |(std|alloc)::string::String::|<&?(mut )?(std|alloc)::string::String as )', c.name))


def _ws_predicate(ctx, b, a, depth=0):
    """is the pattern operand a whitespace test?  `|c: char| c.is_ascii_whitespace()`, `char::is_whitespace`, a crate fn doing that, `' '`"""
    if a['k'] == 'const':
        v = a.get('v') or ''
        if re.search(r'is_ascii_whitespace|char::methods::<impl char>::is_whitespace', v + ' ' + (a.get('fnp') or '')): return True
        if re.fullmatch(r"(const )?'( |\\t)'", v.strip()): return True
        fb = ctx.F.bodies.get(a.get('fnp') or '') or ctx.F.bodies.get(v)
        return fb is not None and fb.kind == 'fn' and _ws_body(ctx, fb)
    cb = closure_body(ctx, b, a)
    return cb is not None and _ws_body(ctx, cb)


def _ws_body(ctx, cb):
    if not cb.calls or any(c.item not in ('is_ascii_whitespace', 'is_whitespace') for c in cb.calls): return False
    if any(st['rv']['k'] == 'bin' for bi, st in cb.stmts()): return False
    return not any(o['k'] == 'const' and o['v'].strip().startswith("'") for bi, st in cb.stmts() for o in st['rv'].get('ops', []))


# calls that give back / leave behind a text different from the one they got (beyond cutting: case folding, replacing, appending)
STR_REWRITERS = STR_CUTTERS + ('to_uppercase', 'to_lowercase', 'to_ascii_uppercase', 'to_ascii_lowercase', 'make_ascii_uppercase', 'make_ascii_lowercase',
                               'insert', 'insert_str', 'push', 'push_str', 'split_off', 'repeat', 'rev', 'escape_debug', 'escape_default')
NUMERIC_TY = re.compile(r'^(f32|f64|[iu](8|16|32|64|128|size)|std::num::NonZero<.*>|std::num::NonZero\w+)$')


def _is_rewriter(c):
    if not _is_str_call(c) or c.item not in STR_REWRITERS: return False
    if c.item in ('get', 'get_unchecked', 'index'): return bool(re.search(r'Range', c.name))
    return True


def _only_parsed_as_number(b, c, limit=60):
    """does the text a call produces end up in nothing but `parse::<number>()`?  (a rewrite such as the Fortran exponent `1.0D+20 -> 1.0E+20`
    confined to a token that is then read as a number cannot touch a name)"""
    seen = set(); work = [c.dst['l']]; sinks = 0
    while work:
        l = work.pop()
        if l in seen: continue
        seen.add(l)
        if len(seen) > limit or l == 0: return False
        for kind, bi, x in b.uses.get(l, ()):
            if kind == 'stmt':
                if 'dst' not in x: continue
                if x['rv']['k'] in ('use', 'ref') and not x['dst']['p']: work.append(x['dst']['l'])
                else: return False
            elif kind == 'call':
                if x.item == 'parse' and _is_str_call(x):
                    ty = (x.gargs[-1] if x.gargs else '').strip()
                    if NUMERIC_TY.match(ty): sinks += 1; continue
                    return False
                if _is_str_call(x) and STR_VIEWS.search(T.strip_generics_tail(x.name)) or x.item in ('deref', 'as_str', 'as_ref', 'borrow'): work.append(x.dst['l']); continue
                return False
            else: return False
    return sinks > 0


def name_path_bodies(ctx, fl):
    """the bodies a token passes on its way into a NAME: from the reader of QplibFile.var_names / constr_names down through everything it calls
    with the text (closures, functions handed over as values), leaving out calls whose result is a number (the entry count of the section)"""
    aggs = find_aggregates(fl, QF)
    starts = []
    for bi, st in aggs:
        for f in ('var_names', 'constr_names'):
            for c in origin_calls(fl, agg_field_operand(st, f)):
                cb = ctx.F.bodies.get(c.path) or ctx.F.bodies.get(c.name)
                if cb is not None and cb.name.startswith('qplib::'): starts.append(cb)
    out = {}; work = list(starts)
    while work:
        b = work.pop()
        if b.name in out: continue
        out[b.name] = b
        for bi, st, cl in b.closures_created():
            cb = ctx.F.bodies.get(cl)
            if cb is not None: work.append(cb)
        for c in b.calls:
            ty = b.locals[c.dst['l']] if not c.dst['p'] else ''
            m = re.match(r'^std::result::Result<(.*), [^,]*>$', ty.strip())
            if NUMERIC_TY.match((m.group(1) if m else ty).strip()): continue
            for cb in crate_callees(ctx, b, c):
                if cb.name.startswith('qplib::'): work.append(cb)
    return list(out.values())


def token_rules(ctx):
    R = 'C19.tokens'
    fl = from_lines(ctx)
    bodies = [b for b in ctx.F.bodies.values() if b.kind in ('fn', 'closure') and 'qplib::parser::FileCursor' in (b.hdr.get('self') or '')] + ([fl] if fl is not None else [])
    if not bodies:
        ctx.lost(R, 'qplib::parser::FileCursor'); return
    bad_sep = []; cutters = []; splitters = []
    for b in bodies:
        for c in b.calls:
            if not _is_str_call(c): continue
            if c.item in WS_SPLITS: splitters.append((b, c))
            elif c.item in STR_SPLITS:
                pat = c.args[2] if c.item in ('splitn', 'rsplitn') and len(c.args) == 3 else (c.args[1] if len(c.args) >= 2 else None)
                if pat is not None and _ws_predicate(ctx, b, pat): splitters.append((b, c))
                else: bad_sep.append('%s: %s' % (b.site(c.bb), c.item))
            elif c.item in STR_CUTTERS and (c.item not in ('get', 'get_unchecked', 'index', 'pop', 'remove', 'drain', 'retain', 'truncate') or (re.search(r'Range', c.name) if c.item in ('get', 'get_unchecked', 'index') else True)):
                if not _only_parsed_as_number(b, c): cutters.append('%s: %s' % (b.site(c.bb), c.item))
    ctx.check(not bad_sep, R + '/separator', 'T-TABLE', 'qplib::parser::FileCursor', 'a line is split on something other than whitespace: %s' % bad_sep[:4])
    ctx.check(not cutters, R + '/no-cutter', 'T-TABLE', 'qplib::parser::FileCursor', 'characters are cut out of a line / token: %s' % cutters[:4])
    # names are stored verbatim: on the way of a token into var_names / constr_names nothing rewrites it (a rewrite of a token that is only read
    # as a number afterwards is not on that way)
    if fl is not None:
        nb = name_path_bodies(ctx, fl)
        if nb and fl.name not in {b.name for b in nb}: nb = nb + [fl]        # the instance name and anything from_lines does to the tables itself
        rew = ['%s: %s in %s' % (b.site(c.bb), c.item, b.name.split('::')[-1]) for b in nb for c in b.calls if _is_rewriter(c) and not _only_parsed_as_number(b, c)]
        ctx.check(bool(nb) and not rew, R + '/names-verbatim', 'T-CARRY', 'qplib::parser::FileCursor',
                  'a token is rewritten on its way into a variable / constraint name: %s' % (rew[:4] if nb else 'no reader of the name sections found'), names_path=sorted(b.name.split('qplib::parser::')[-1] for b in nb)[:12])
    ctx.check(bool(splitters), R + '/splitters', 'T-TABLE', 'qplib::parser::FileCursor', 'no place where a line is split into whitespace-separated tokens was found')
    for b, c in splitters:
        # what is split: the line as `expect_next` delivered it, seen through views only
        e = T.expr(b, c.args[0], depth=16); why = None
        for x in _spine(e):
            if x[0] == 'call' and x[1] == 'expect_next': break
            if x[0] == 'call' and not STR_VIEWS.search(T.strip_generics_tail(x[2])): why = 'through `%s`' % x[1]; break
            if x[0] in ('bin', 'un'): why = 'computed'; break
        else:
            why = why or 'not traced to an expect_next() result'
        ctx.check(why is None, R + '/whole-line', 'T-CARRY', b.name, 'the text that is split into tokens is not the whole line (%s)' % why, b.site(c.bb))


# =============================================================================== C19.vartypes
VARTYPE_SAMPLES = (-1.0, 0.0, 0.5, 1.0, 2.0, 7.0)


def vartype_rules(ctx, fl, st, kinds, reach_of):
    """declared variable types: an Integer variable is re-typed Binary exactly when its bounds are (0,1), (0,0) or (1,1); nothing
    else is re-typed; the re-typing is applied to the types of I, M and G problems with (lower_bounds, upper_bounds) in this order"""
    R = 'C19.vartypes'
    ib = ctx.free_fn(R + '/anchor', 'qplib::parser::integer_to_binary')
    if ib is None: return
    ctx.fn(ib)
    # the calls of integer_to_binary that work on the value which becomes QplibFile.var_types: by value (`types = integer_to_binary(types, ..)`,
    # the call produces the field) or in place (`integer_to_binary(&mut types, ..); types`, the call borrows a local that is moved into the field)
    vt_op = agg_field_operand(st, 'var_types')
    calls = [c for c in origin_calls(fl, vt_op) if c.path == ib.name]
    held = set(); work = [vt_op['pl']['l']] if vt_op is not None and vt_op['k'] in ('copy', 'move') else []
    while work:
        l = work.pop()
        if l in held: continue
        held.add(l)
        for k_, bb_, d_ in fl.defs_of(l):
            if k_ == 'stmt' and not d_['dst']['p'] and d_['rv']['k'] == 'use' and d_['rv']['ops'][0]['k'] in ('copy', 'move') and not d_['rv']['ops'][0]['pl']['p']: work.append(d_['rv']['ops'][0]['pl']['l'])
    for c in fl.calls:
        if c.path != ib.name or c in calls: continue
        for a in c.args:
            if a['k'] in ('copy', 'move') and '&mut' in fl.locals[a['pl']['l']] and 'VarType' in fl.locals[a['pl']['l']] and borrowed_local(fl, a) in held: calls.append(c); break
    # (1) applied where the format can declare integer variables
    adt = kinds.get('ProbVarKind')
    applied = sorted(v['name'] for v in (adt or {}).get('variants', []) if any(c.bb in reach_of('ProbVarKind', v) for c in calls))
    ctx.check({'Integer', 'Mixed', 'General'} <= set(applied), R + '/applied', 'T-BRANCHFX', fl.name,
              'QplibFile.var_types goes through integer_to_binary for %s problems; it must for Integer, Mixed and General' % applied, fl.site())
    # (2) which argument is which: by the value the call site passes
    def oset(op): return {id(c) for c in origin_calls(fl, op)}
    O = {'lower': oset(agg_field_operand(st, 'lower_bounds')), 'upper': oset(agg_field_operand(st, 'upper_bounds'))}
    roles = None; bad = []
    for c in calls:
        r = {}
        for i, a in enumerate(c.args):
            if a['k'] in ('copy', 'move') and 'VarType' in fl.locals[a['pl']['l']]: r[i + 1] = 'types'; continue
            oa = oset(a) if a['k'] in ('copy', 'move') else set()
            hit = [k for k in ('lower', 'upper') if oa & O[k]]
            if len(hit) == 1: r[i + 1] = hit[0]
        if sorted(r.values()) != ['lower', 'types', 'upper']: bad.append(fl.site(c.bb)); continue
        if roles is None: roles = r
        elif roles != r: bad.append(fl.site(c.bb))
    if calls and roles is not None and not bad:
        ctx.ok(R + '/bounds-passed', 'T-CARRY', fl.site(calls[0].bb), roles=str(roles))
    elif calls and roles is None:
        ctx.undecided(R + '/bounds-passed', 'T-CARRY', fl.site(), 'cannot tell which argument of integer_to_binary carries which bound list')
    else:
        ctx.bad(R + '/bounds-passed', 'T-CARRY', fl.name, 'integer_to_binary is not given (types, lower_bounds, upper_bounds) consistently at %s' % (bad or 'any call'), fl.site())
    if roles is None: roles = {1: 'types', 2: 'lower', 3: 'upper'}          # declaration order
    lab = {v: '#%d' % k for k, v in roles.items()}
    # (3) truth table of the re-typing on sample bounds, by probing one pass of the loop (nothing is executed)
    want_bin = {(0.0, 1.0), (0.0, 0.0), (1.0, 1.0)}
    loops = []
    for lo in T.for_loops(ib):
        tree = item_tree(ctx, ib, lo[0].args[0])
        leaves = set()
        def collect(t):
            if t is None: return
            if t[0] == 'leaf': leaves.add(t[1])
            else:
                for x in t[1]: collect(x)
        collect(tree)
        if tree is not None and set(lab.values()) <= leaves: loops.append((lo, tree))
    wrong = []; why = None
    param = {v: k for k, v in roles.items()}
    def one(t0, l, u, whole):
        cv = _Cell(['enum', 'qplib::parser::VarType::' + t0, []]); cl = _Cell(l); cu = _Cell(u)
        if whole:
            # the function itself on one-element lists (std_model: iter / zip / index / len ..)
            # a second entry (an integer variable with bounds [3, 4], which must stay as it is) stands before the sample
            args = [UNK] * ib.argc
            decoy = {'types': _Cell(['enum', 'qplib::parser::VarType::Integer', []]), 'lower': _Cell(3.0), 'upper': _Cell(4.0)}
            for role, cell in (('types', cv), ('lower', cl), ('upper', cu)):
                vec = ['vec', [decoy[role], cell]]
                args[param[role] - 1] = _Ref(_Cell(vec), []) if ib.locals[param[role]].lstrip().startswith('&') else vec
            ret = Probe(ctx).run(ib, args)
            rv_, _r = Probe._target(ret)
            in_place = ib.locals[0].strip() == '()' and ib.locals[param['types']].lstrip().startswith('&mut')
            if not in_place and not (isinstance(rv_, list) and rv_[0] == 'vec' and len(rv_[1]) == 2 and rv_[1][1] is cv): raise ProbeUndecided('the returned list is not the list of types that was passed in')
            if _full(decoy['types'].v) != ['enum', 'qplib::parser::VarType::Integer', []]: cv = _Cell(['enum', 'qplib::parser::VarType::<neighbouring entry changed>', []])
        else:
            # one pass of the loop with the item built from the iterator chain
            probe_loop_pass(ctx, ib, loops[0][0], loops[0][1], {lab['types']: cv, lab['lower']: cl, lab['upper']: cu})
        return cv, cl, cu
    mode = None
    for whole in (True, False):
        try:
            if not whole and not loops: raise ProbeUndecided((why or '') + '; no loop over (types, lower bounds, upper bounds) recognised')
            one('Integer', 0.0, 1.0, whole); mode = whole; why = None; break
        except ProbeUndecided as e:
            why = ((why + '; ') if why else '') + str(e)
    if mode is not None:
        try:
            for t0 in ('Continuous', 'Integer', 'Binary'):
                for l in VARTYPE_SAMPLES:
                    for u in VARTYPE_SAMPLES:
                        cv, cl, cu = one(t0, l, u, mode)
                        got = cv.v[1].split('::')[-1] if isinstance(cv.v, list) and cv.v[0] == 'enum' else repr(cv.v)
                        want = 'Binary' if (t0 == 'Integer' and (l, u) in want_bin) else t0
                        if got != want: wrong.append('%s[%g, %g] -> %s (expected %s)' % (t0, l, u, got, want))
                        if cl.v != l or cu.v != u: wrong.append('bounds [%g, %g] are modified' % (l, u))
        except ProbeUndecided as e:
            why = str(e)
    if why is not None:
        # weaker condition that is still decided: only the literals 0 and 1 take part in the bound test
        lits = sorted({c for bd in [ib] + [x for n, x in ctx.F.bodies.items() if n.startswith(ib.name + '::promoted[')] for bi, s2 in bd.stmts() for o in s2['rv'].get('ops', []) if o['k'] == 'const' and re.match(r'^-?[0-9.E+-]+f64$', o['v']) for c in [o['v']]})
        ctx.check(set(lits) <= {'0f64', '1f64'} and bool(lits), R + '/truth-table/literals', 'T-TABLE', ib.name, 'the bound test of integer_to_binary uses the literals %s, expected only 0 and 1' % lits, ib.site())
        ctx.undecided(R + '/truth-table', 'T-TABLE', ib.site(), 'cannot probe the re-typing loop: %s' % why)
    else:
        ctx.check(not wrong, R + '/truth-table', 'T-TABLE', ib.name, 'integer variables must become binary exactly for bounds (0,1), (0,0), (1,1) and no other type may change: %s%s' % ('; '.join(wrong[:6]), ' ...' if len(wrong) > 6 else ''), ib.site(),
                  samples=3 * len(VARTYPE_SAMPLES) ** 2, probe='whole function on two-entry lists' if mode else 'one pass of the loop')


# =============================================================================== C19.errors
def _line_num_place(b, operand):
    """does the operand read (an alias of) the cursor's `line_num` field?"""
    if operand['k'] not in ('copy', 'move'): return False
    fs, root, calls = T.access_path(b, operand)
    return any(f == 'line_num' for a, f in fs)


UNSIGNED_TY = re.compile(r'^(u8|u16|u32|u64|u128|usize|std::num::NonZero<u(8|16|32|64|128|size)>|std::num::NonZeroU(8|16|32|64|128|size))$')
# what makes a parsed number a COUNT: it bounds a loop or sizes a collection
COUNT_USES = {
    'range':   '`0..n` / `0..=n` (a Range aggregate / RangeInclusive::new): the number of entry lines read',
    'sized':   '`take(n)`, `repeat_n(x, n)`, `vec![x; n]`, `with_capacity(n)`, `resize(n, x)`',
    'field':   'QplibFile.num_vars / QplibFile.num_constraints',
    'returned': 'the value a cursor method with an unsigned integer result returns (a count-reading helper)',
}


def _parsed_type(c):
    """T of `next_parse::<T, E>()`, `parse_or_err_with_line::<T, E>(..)`, `str::parse::<T>()`"""
    if not c.gargs: return None
    if c.item == 'parse' and _is_str_call(c): return c.gargs[-1].strip()
    if c.item in ('next_parse', 'parse_or_err_with_line') and c.path.startswith('qplib::parser::FileCursor'):
        g = [x for x in c.gargs if not x.startswith('impl ') and 'Iterator' not in x]
        return g[-2].strip() if len(g) >= 2 else None
    return None


def _count_use(b, c, limit=80):
    """is the number this call parses used as a count (COUNT_USES 'range' / 'sized')?  Forward through `?`, copies, casts."""
    seen = set(); work = [c.dst['l']]
    while work and len(seen) < limit:
        l = work.pop()
        if l in seen: continue
        seen.add(l)
        # a helper whose result is an unsigned integer made from the parsed number (`fn next_count(..) -> Result<usize>`): a count by its type
        if l == 0 and c.dst['l'] != 0 and re.search(r'(^|[<( ])(usize|u64|u32)([>,) ]|$)', b.locals[0]): return 'returned'
        for kind, bi, x in b.uses.get(l, ()):
            if kind == 'stmt':
                if 'dst' not in x: continue
                rv = x['rv']
                if rv['k'] == 'agg' and re.search(r'ops::Range(Inclusive|To|ToInclusive)?$', rv['adt']): return 'range'
                if rv['k'] in ('use', 'cast', 'ref') and not x['dst']['p']: work.append(x['dst']['l'])
                # handed on inside Ok(..) / Some(..): the result of a helper (inlined by the normal form) that the caller unwraps with `?`
                elif rv['k'] == 'agg' and _PAYLOAD.search(rv['adt']) and not x['dst']['p']: work.append(x['dst']['l'])
            elif kind == 'call':
                if T.TRY_BRANCH.search(x.name) or T.ERR_ADAPTORS.search(x.name): work.append(x.dst['l']); continue
                if re.search(r'RangeInclusive::<.*>::new$|RangeInclusive<.*>>::new$', T.strip_generics_tail(x.name)): return 'range'
                pos = [i for i, a in enumerate(x.args) if a['k'] in ('copy', 'move') and a['pl']['l'] == l]
                if (x.item in ('take', 'with_capacity', 'reserve', 'reserve_exact') and pos) or (x.item in ('from_elem', 'repeat_n') and 1 in pos) or (x.item == 'resize' and 1 in pos): return 'sized'
    return None


def lines_read(ctx, body, _memo=None, _stack=()):
    """how many lines of the file a cursor method consumes per call: 'none' | 'one' | 'many'.  The primitive is the method that advances
    `line_num` itself; a method is 'many' if it makes a cursor-advancing call in a loop, or two that can follow each other."""
    _memo = _memo if _memo is not None else ctx.__dict__.setdefault('_c19_lines', {})
    if body.name in _memo: return _memo[body.name]
    if body.name in _stack: return 'many'
    if any(st['dst']['p'] and any(f == 'line_num' for a, f in fields_of_place(st['dst'])) for bi, st in body.stmts()):
        _memo[body.name] = 'one'; return 'one'
    adv = advancing_calls(ctx, body, _memo, _stack + (body.name,))
    res = 'none'
    if adv:
        res = 'one'
        if any(k == 'many' or innermost_loop(body, c.bb) is not None for c, k in adv): res = 'many'
        elif any(c2.bb in body.reach([c1.target]) for c1, k1 in adv for c2, k2 in adv if c1 is not c2 and c1.target >= 0): res = 'many'
    _memo[body.name] = res
    return res


def advancing_calls(ctx, body, _memo=None, _stack=()):
    """(call, 'one' | 'many') for the calls in `body` that advance the cursor"""
    out = []
    for c in body.calls:
        cb = ctx.F.bodies.get(c.path) or ctx.F.bodies.get(c.name)
        if cb is None or cb.kind != 'fn' or 'qplib::parser::FileCursor' not in (cb.hdr.get('self') or '') or cb.argc < 1 or not cb.locals[1].lstrip().startswith('&mut'): continue
        k = lines_read(ctx, cb, _memo, _stack)
        if k != 'none': out.append((c, k))
    return out


def line_of_entry_rules(ctx, cur):
    """errors carry the line number OF THE OFFENDING LINE: wherever a cursor method builds a line-numbered error (invalid_line / with_line /
    unexpected_eof with the cursor's line_num), the cursor-advancing call that ran last before it read exactly one line -- a call that reads a
    whole section (consume_map, collect_i_val, ..) leaves line_num at the section's last line, and an error built after it points there."""
    R = 'C19.errors/line-of-entry'
    fns = [b for b in cur if b.kind == 'fn']
    fl = from_lines(ctx)
    if fl is not None: fns.append(fl)
    for b in fns:
        sites = [(c.bb, c.item) for c in b.calls if c.item in ('with_line', 'invalid_line', 'unexpected_eof') and c.path.startswith('qplib::')]
        for bi, st, cl in b.closures_created():           # an error built in a closure (`map_err(|e| e.with_line(self.line_num))`) counts where the closure is made
            cb = ctx.F.bodies.get(cl)
            if cb is not None: sites += [(bi, c.item) for c in cb.calls if c.item in ('with_line', 'invalid_line', 'unexpected_eof') and c.path.startswith('qplib::')]
        if not sites: continue
        adv = advancing_calls(ctx, b)
        single = {c.bb for c, k in adv if k == 'one'}
        for ebb, item in sites:
            late = [c for c, k in adv if k == 'many' and c.target >= 0 and ebb in b.reach([c.target]) and not T.must_pass(b, c.target, {ebb}, single)]
            ctx.check(not late, R, 'T-ERRFLOW', b.name, 'the %s error can be built right after `%s`, which reads a whole section: the line number is the section\'s last line, not the offending one' % (item, late[0].item if late else ''), b.site(ebb))


def count_type_rules(ctx, cur):
    """malformed counts are errors: every number read from the file that is used as a count is parsed as an UNSIGNED integer, so that `-1`
    (and `2.5`) is a parse error with the line number instead of an empty / truncated loop.  The instantiation is read off the resolved
    facts, so a type that is only inferred (`let num = self.next_parse()?; for _ in 0..num`, which falls back to i32) is decided as what it is."""
    R = 'C19.errors/count-type'
    sites = []
    fl = from_lines(ctx)
    if fl is not None:
        for bi, st in find_aggregates(fl, QF):
            for f in ('num_vars', 'num_constraints'):
                for c in origin_calls(fl, agg_field_operand(st, f)):
                    ty = _parsed_type(c)
                    if ty is not None: sites.append((fl, c, ty, 'QplibFile.' + f))
    for b in list(cur) + ([fl] if fl is not None else []):
        for c in b.calls:
            ty = _parsed_type(c)
            if ty is None or re.fullmatch(r'[A-Z]\w?', ty): continue          # a type parameter: decided at the instantiating call
            use = _count_use(b, c)
            if use and not any(x[1] is c for x in sites): sites.append((b, c, ty, 'a %s count' % use))
    ctx.check(bool(sites), R + '/sites', 'T-TABLE', 'qplib::parser::FileCursor', 'no count read from the file was found (COUNT_USES)')
    for b, c, ty, what in sites:
        ctx.check(bool(UNSIGNED_TY.match(ty)), R, 'T-TABLE', b.name, '%s is parsed as `%s`; a count must be parsed as an unsigned integer, or a negative / fractional count loads silently' % (what, ty), b.site(c.bb), parsed_as=ty)


def errors_rules(ctx):
    R = 'C19.errors'
    cur = [b for b in ctx.F.bodies.values() if b.kind in ('fn', 'closure') and 'qplib::parser::FileCursor' in (b.hdr.get('self') or '')]
    ctx.check(len([b for b in cur if b.kind == 'fn']) >= 10, R + '/cursor-methods', 'T-ERRFLOW', 'qplib::parser::FileCursor', 'cursor methods found: %d' % len(cur))
    # (1) errors leave the cursor as QplibParseError (with a line number), never as a bare ParseErrorReason / std error
    bad = []
    for b in cur:
        ctx.fn(b)
        for c in b.calls:
            if 'FromResidual' in c.name and re.search(r'Result<std::convert::Infallible, (qplib::ParseErrorReason|std::num::Parse\w+Error)>', c.name) and 'anyhow::Error' in c.name:
                bad.append('%s@%s' % (b.name.split('::')[-1], b.site(c.bb)))
    ctx.check(not bad, R + '/line-number-kept', 'T-ERRFLOW', 'qplib::parser::FileCursor', 'errors converted into anyhow::Error without a line number at %s' % bad[:4])
    # (2) EOF and the line counter, on the line loop of expect_next.  The loop may be a `for`, a `while let`, `find(..)`, `loop { next().ok_or_else(..)? }`.
    en = [b for b in cur if b.kind == 'fn' and b.hdr.get('item') == 'expect_next']
    if en:
        b = local_form(ctx, en[0])
        # the line loop: a `next` loop whose iterator is the cursor's `inner`
        loops = [lo for lo in T.for_loops(b) if any(f == 'inner' for a, f in local_slicer(ctx).slice_operand(b, lo[0].args[0]).fields)] or T.for_loops(b)
        ue = [c for c in b.calls if c.item == 'unexpected_eof']
        ok = False; why = 'no unexpected_eof call / no line loop'
        if ue and loops:
            lo = loops[0]; none_bb = lo[3]
            eof_reg = reach_ps(b, [none_bb])
            hit = [c for c in ue if c.bb in eof_reg]
            why = []
            if not hit: why.append('the exhausted-iterator side does not reach unexpected_eof')
            if hit and not _line_num_place(b, hit[0].args[0]): why.append('unexpected_eof is not given line_num')
            if hit and not flows_to_return(b, hit[0].dst['l']): why.append('the unexpected_eof error is not returned')
            if eof_reg & b.strict_ok_exits(): why.append('the exhausted-iterator side reaches an Ok-exit')
            ok = not why; why = '; '.join(why)
        ctx.check(ok, R + '/eof', 'T-ERRFLOW', b.name, 'running out of lines is not reported as unexpected_eof(line_num): %s' % why, b.site())
        # line counter: on every path from "a line was taken" to the next iteration or to an Ok-exit, `line_num` is incremented by one and stored back
        okc = False
        if loops:
            lo = loops[0]
            stores = set()
            for bi, st in b.stmts():
                rv = st['rv']
                if bi in lo[4] and rv['k'] == 'bin' and rv['op'].startswith('Add') and any(o['k'] == 'const' and o['v'] == '1_usize' for o in rv['ops']) and any(_line_num_place(b, o) for o in rv['ops']):
                    tmp = st['dst']
                    if tmp['p'] and any(f == 'line_num' for a, f in T.access_path(b, {'k': 'copy', 'pl': tmp})[0]): stores.add(bi); continue
                    # checked add: `(t, overflow) = a + 1; assert; place = t.0`
                    for b2, st2 in b.stmts():
                        if st2['rv']['k'] == 'use' and st2['rv']['ops'][0]['k'] in ('copy', 'move') and st2['rv']['ops'][0]['pl']['l'] == tmp['l'] and st2['dst']['p'] \
                                and any(f == 'line_num' for a, f in T.access_path(b, {'k': 'copy', 'pl': st2['dst']})[0]):
                            stores.add(b2)
            okc = bool(stores) and T.must_pass(b, lo[2], {lo[1]} | b.strict_ok_exits(), stores)
        ctx.check(okc, R + '/line-counter', 'T-LOOPMUST', b.name, 'line counter is not advanced for every consumed line', b.site())
    # (3) with_line receives the cursor's current line
    for b in cur:
        for c in b.calls:
            if c.item in ('with_line', 'invalid_line', 'unexpected_eof') and c.path.startswith('qplib::'):
                a = c.args[-1]
                fs = [f for a_, f in T.expr_fields(T.expr(b, a, depth=8))]
                if 'line_num' not in fs and _line_num_place(b, a): fs.append('line_num')
                if b.kind == 'closure' and 'line_num' not in fs:
                    # value captured by the closure: look at what the parent stores in that capture slot
                    slots = [f for a_, f in T.expr_fields(T.expr(b, a, depth=8)) if a_ == 'closure']
                    pb = ctx.F.bodies.get(b.parent)
                    for par in ([pb] if pb else []) + [x for x in cur if x.name == b.name.rsplit('::{closure', 1)[0]]:
                        for bi2, st2, cl in par.closures_created():
                            if cl == b.name and slots and slots[0].isdigit() and int(slots[0]) < len(st2['rv']['ops']):
                                fs = fs + [f for a_, f in T.expr_fields(T.expr(par, st2['rv']['ops'][int(slots[0])], depth=8))]
                                if _line_num_place(par, st2['rv']['ops'][int(slots[0])]): fs.append('line_num')
                ctx.check('line_num' in fs, R + '/line-argument', 'T-CARRY', b.name, '%s is not given the cursor\'s line_num' % c.item, b.site(c.bb))
    # (4) no panic on malformed indices: 1-based indices are parsed as NonZero before `- 1`, table slots via get_mut
    for b in cur:
        for bi, st in b.stmts():
            rv = st['rv']
            if rv['k'] == 'bin' and rv['op'].startswith('Sub') and rv.get('ty') == 'usize' and any(o['k'] == 'const' and o['v'] == '1_usize' for o in rv['ops']):
                ex = T.expr(b, rv['ops'][0], depth=10)
                parsed = any(x[0] == 'call' and x[1] in ('parse', 'parse_or_err_with_line') for x in T.expr_walk(ex))
                if not parsed: continue
                nz = any(x[0] == 'call' and x[1] == 'get' and 'NonZero' in x[2] for x in T.expr_walk(ex))
                ctx.check(nz, R + '/index-underflow', 'T-GUARD', b.name, 'a parsed 1-based index is decremented without excluding 0 (index 0 panics / wraps instead of giving a parse error)', b.site(bi))
        for c in b.calls:
            if c.item in ('index_mut', 'index') and 'Vec<' in c.name and re.search(r'IndexMut<usize>|Index<usize>', c.name):
                ix = T.expr(b, c.args[1], depth=10)
                if any(x[0] == 'call' and x[1] in ('parse', 'parse_or_err_with_line') for x in T.expr_walk(ix)) or any(x[0] == 'proj' and x[1][0] == 'call' and 'Fn' in x[1][2] for x in T.expr_walk(ix)):
                    ctx.bad(R + '/index-out-of-range', 'T-GUARD', b.name, 'a table is indexed with a value taken from the file without a range check', b.site(c.bb))
    count_type_rules(ctx, cur)
    line_of_entry_rules(ctx, cur)
    ctx.floor('C19.errors', 20)


# =============================================================================== C19.infinity / C19.convert
def _inf_consts(ctx, b, blocks, depth=3, _seen=None):
    """'+inf' / '-inf' for every f64 infinity constant used in `blocks` of b or in the crate closures / functions called or built there"""
    _seen = _seen if _seen is not None else set()
    out = set()
    def of(v): return '-inf' if 'NEG_INFINITY' in v else ('+inf' if 'INFINITY' in v else None)
    for bi, st in b.stmts():
        if bi not in blocks: continue
        for o in st['rv'].get('ops', []):
            if o['k'] == 'const' and of(o['v']): out.add(of(o['v']))
        if st['rv']['k'] == 'agg' and st['rv']['adt'].startswith('closure:') and depth > 0:
            cb = ctx.F.bodies.get(st['rv']['adt'][8:])
            if cb is not None and cb.name not in _seen:
                _seen.add(cb.name); out |= _inf_consts(ctx, cb, cb.live, depth - 1, _seen)
    for c in b.calls:
        if c.bb not in blocks: continue
        for a in c.args:
            if a['k'] == 'const' and of(a['v']): out.add(of(a['v']))
        cb = ctx.F.bodies.get(c.path) or ctx.F.bodies.get(c.name)
        if cb is not None and depth > 0 and cb.name not in _seen and cb.name.startswith('qplib::'):
            _seen.add(cb.name); out |= _inf_consts(ctx, cb, cb.live, depth - 1, _seen)
    return out


def infinity_rules(ctx, conv):
    R = 'C19.infinity'
    if conv is not None:
        ai = [c for c in conv.calls if c.item == 'apply_infinity_threshold']
        # every other qplib function `convert` calls (the conversions) runs after the threshold was applied
        others = [c for c in conv.calls if c.path.startswith('qplib::') and c.item != 'apply_infinity_threshold' and (ctx.F.bodies.get(c.path) is not None)]
        ctx.check(len(ai) >= 1 and bool(others) and all(conv.dominates(ai[0].bb, c.bb) for c in others), R + '/applied-first', 'T-MUSTCALL', conv.name,
                  'apply_infinity_threshold is not called before the conversion', conv.site())
    at = ctx.method(R + '/anchor', QF, 'apply_infinity_threshold')
    if at is None: return
    # routing: the loop over list L replaces with the infinity of L's side.  Per list: the infinities used inside the loops over it.
    want = {'lower_bounds': ['-inf'], 'constr_lower_cs': ['-inf'], 'upper_bounds': ['+inf'], 'constr_upper_cs': ['+inf']}
    rows = {}
    for lo in T.for_loops(at):
        s = ctx.S.slice_operand(at, lo[0].args[0])
        flds = sorted({f for (pi, a, f) in s.root_fields if f in want} | {f for a, f in s.fields if a.endswith('QplibFile') and f in want})
        body_blocks = lo[4] - {lo[3]}
        infs = _inf_consts(ctx, at, body_blocks)
        # the value stored through the item reference inside the loop (a helper's parameter after inlining, a local `let inf = ..`)
        for b2, s2 in at.stmts():
            if b2 in body_blocks and s2['dst']['p'] and s2['dst']['p'][0] == '*' and s2['rv']['k'] == 'use' and 'f64' in at.locals[s2['dst']['l']]:
                for cst in ctx.S.slice_operand(at, s2['rv']['ops'][0]).consts:
                    if 'INFINITY' in cst: infs.add('-inf' if 'NEG_INFINITY' in cst else '+inf')
        for f in flds: rows[f] = sorted(set(rows.get(f, [])) | infs)
    if not rows and all(ctx.S.backslice(at, [1]).has_field(QF, f) for f in want):
        # no loop over the lists recognised: weaker condition = both infinities occur and all four lists are touched
        both = _inf_consts(ctx, at, at.live) == {'+inf', '-inf'}
        ctx.check(both, R + '/routing/both-infinities', 'T-BRANCHFX', at.name, 'apply_infinity_threshold does not use both infinities', at.site())
        ctx.undecided(R + '/routing', 'T-BRANCHFX', at.site(), 'no loop over the four bound lists recognised')
    else:
        ctx.check(rows == want, R + '/routing', 'T-BRANCHFX', at.name, 'infinity routing is %s, expected %s' % (rows, want), at.site(), table=str(rows))
    # |v| >= threshold: the replacement happens exactly on the `abs(v) >= t` side.  Idioms: `a >= t` == `t <= a` with a = v.abs().
    # (`!(a < t)` is NOT in the list: it differs for NaN, which `parse::<f64>` accepts)
    okc = False; seen_cmp = []
    for cb in [at] + list(ctx.F.closures_of(at)):
        for bi, st in float_cmp_sites(cb, ('Ge', 'Gt', 'Le', 'Lt')):
            l = T.expr(cb, st['rv']['ops'][0]); r = T.expr(cb, st['rv']['ops'][1]); op = st['rv']['op']
            la, ra = T.expr_has_call(l, 'abs'), T.expr_has_call(r, 'abs')
            if la == ra: continue
            if ra: op = {'Ge': 'Le', 'Le': 'Ge', 'Gt': 'Lt', 'Lt': 'Gt'}[op]       # write as `abs OP t`
            for g in T.guards_from_local(cb, st['dst']['l'], bi):
                tr, fr = exclusive_regions(cb, bi, g.true_bb, g.false_bb)
                def stores(reg): return any(b2 in reg and s2['dst']['p'] and cb.locals[s2['dst']['l']].replace('&mut ', '').strip() == 'f64' for b2, s2 in cb.stmts())
                st_true, st_false = stores(tr), stores(fr)
                seen_cmp.append((op, st_true, st_false))
                if op == 'Ge' and st_true and not st_false: okc = True
    ctx.check(okc, R + '/comparison', 'T-BRANCHFX', at.name, 'infinite values are not detected by `|v| >= threshold` (comparisons with abs: %s)' % seen_cmp, at.site())


def half_rules(ctx):
    R = 'C19.convert'
    tq0 = ctx.free_fn(R + '.half/anchor', 'qplib::convert::to_quadratic')
    if tq0 is None: return
    tq = local_form(ctx, tq0)            # `.unzip()` / `.multiunzip()` into (rows, columns, values) as the loop of pushes it stands for
    HS = local_slicer(ctx) if tq is not tq0 else ctx.S
    cmps = [(bi, st) for bi, st in tq.stmts() if st['rv']['k'] == 'bin' and st['rv']['op'] in ('Eq', 'Ne') and st['rv'].get('ty') in ('usize', 'u64', '&usize')]
    calls = [c for c in tq.calls if c.item in ('eq', 'ne') and 'usize' in c.name]
    diag = None
    for bi, st in cmps:
        for g in T.guards_from_local(tq, st['dst']['l'], bi):
            diag = (g.true_bb, g.false_bb) if st['rv']['op'] == 'Eq' else (g.false_bb, g.true_bb)
    for c in calls:
        for g in T.guards_from_call(tq, c):
            diag = (g.true_bb, g.false_bb) if c.item == 'eq' else (g.false_bb, g.true_bb)
    ctx.check(diag is not None, R + '.half/diagonal-distinguished', 'T-BRANCHFX', tq.name,
              'entries with i == j are not treated differently from i != j (QPLIB: 1/2 x\'Qx with the lower triangle listed, so the diagonal must be halved)', tq.site())
    if diag is not None:
        hdrs = set(tq.loops())
        dr = tq.reach([diag[0]], stop=hdrs) - tq.reach([diag[1]], stop=hdrs); orr = tq.reach([diag[1]], stop=hdrs) - tq.reach([diag[0]], stop=hdrs)
        def scaled(reg):
            out = []
            for bi, st in tq.stmts():
                if bi in reg and st['rv']['k'] == 'bin' and st['rv'].get('ty') == 'f64' and st['rv']['op'] in ('Div', 'Mul'):
                    # a literal or a named `const` item (resolved through the crate's constant table)
                    cs = [T.f64_const(ctx.F.consts[o['v']][1]) if o['v'] in ctx.F.consts else T.f64_const(o['v']) for o in st['rv']['ops'] if o['k'] == 'const']
                    out.append((st['rv']['op'], cs[0] if cs else None))
            return out
        ctx.check(scaled(dr) in ([('Div', 2.0)], [('Mul', 0.5)]) and scaled(orr) == [], R + '.half/diagonal-halved', 'T-BRANCHFX', tq.name,
                  'diagonal entries are scaled by %s and off-diagonal ones by %s; expected /2 and nothing' % (scaled(dr), scaled(orr)), tq.site())
    aggs = find_aggregates(tq, 'v1::Quadratic')
    for bi, st in aggs:
        d = dict(zip(st['rv']['fields'], st['rv']['ops']))
        roots = {f: value_root(tq, d[f]) for f in ('rows', 'columns', 'values')}
        push_roots = {}; push_calls = {}
        for c in tq.calls:
            if c.item == 'push':
                r = value_root(tq, c.args[0])
                fs = [f for a, f in T.expr_fields(T.expr(tq, c.args[1], depth=10)) if a == 'tuple']
                push_roots[r] = fs; push_calls.setdefault(r, []).append(c)
        # every entry of the map gives one element of rows, columns and values: each vector is pushed on every pass of a loop over all entries
        probs = []
        for f in ('rows', 'columns', 'values'):
            ps = push_calls.get(roots[f], [])
            los = [lo for lo in T.for_loops(tq) if any(c.bb in lo[4] for c in ps)]
            if not ps or not los: probs.append('%s is not filled in a loop' % f); continue
            for lo in los:
                if not T.must_pass(tq, lo[2], {lo[1]}, {c.bb for c in ps if c.bb in lo[4]}): probs.append('a pass of the loop can skip the push to %s' % f)
                si = HS.slice_operand(tq, lo[0].args[0])
                if 1 not in si.params: probs.append('the loop filling %s does not run over the coefficient map' % f)
                restr = sorted({x.item for x in si.call_objs if x.item in RESTRICTING and 'Iterator' in (x.trait or '')})
                if restr: probs.append('the loop filling %s is restricted by %s' % (f, restr))
        ctx.check(not probs, R + '.half/every-entry', 'T-LOOPMUST', tq.name, 'an entry can be dropped or partially pushed: %s' % '; '.join(probs), tq.site())
        ok = push_roots.get(roots['rows'], [None])[-1:] == ['0'] and push_roots.get(roots['columns'], [None])[-1:] == ['1']
        ctx.check(ok, R + '.half/row-col-order', 'T-CARRY', tq.name, 'rows / columns are not filled from (i, j) in this order: %s' % push_roots, tq.site(bi))


# =============================================================================== C19.convert.terms
# "listed coefficients reach the Function unfiltered": between the parsed table and the terms nothing may drop or change an entry depending on
# its value.  What counts as a possible value-dependent drop (drop_evidence):
DROP_CALLS = ('filter', 'filter_map', 'retain', 'retain_mut', 'take_while', 'skip_while', 'map_while', 'dedup', 'dedup_by', 'dedup_by_key', 'step_by', 'take', 'skip',
              'remove', 'swap_remove', 'pop', 'truncate', 'drain', 'clear', 'remove_entry', 'pop_first', 'pop_last', 'split_off')
# a call whose callee is chosen by the *result type* (trait dispatch the caller's MIR does not show): call item -> impl item looked up for the type
RESULT_TYPE_DISPATCH = {'collect': 'from_iter', 'from_iter': 'from_iter', 'into': 'from', 'from': 'from', 'sum': 'sum', 'product': 'product', 'try_into': 'try_from', 'extend': 'extend'}


def crate_callees(ctx, body, c):
    """crate bodies a call may run: the resolved callee, and for RESULT_TYPE_DISPATCH the impls of the crate type the call produces
    (`it.collect::<v1::Linear>()` runs `<v1::Linear as FromIterator<_>>::from_iter`, i.e. `Linear::new`)"""
    out = []
    cb = ctx.F.bodies.get(c.path) or ctx.F.bodies.get(c.name)
    if cb is not None and cb.kind in ('fn', 'closure'): out.append(cb)
    want = RESULT_TYPE_DISPATCH.get(c.item)
    if want and cb is None:
        tys = {re.sub(r"^&('\w+ )?(mut )?", '', body.locals[c.dst['l']]).strip()}
        if c.item == 'extend' and c.args and c.args[0]['k'] in ('copy', 'move'): tys.add(re.sub(r"^&('\w+ )?(mut )?", '', body.locals[c.args[0]['pl']['l']]).strip())
        for ty in tys:
            if ty.startswith('std::') or ty.startswith('core::') or ty.startswith('alloc::') or re.match(r'^([\[\(]|(f32|f64|bool|char|str|[iu](8|16|32|64|128|size))$)', ty): continue
            out += [b for b in ctx.F.bodies.values() if b.kind == 'fn' and b.hdr.get('item') == want and (b.hdr.get('self') or '').replace(' ', '') == ty.replace(' ', '')]
    # functions handed over as values: `iter.fold(zero, Add::add)`, `.map(helper)`
    for a in c.args:
        if a['k'] != 'const': continue
        for key in (a.get('fnp'), a.get('v')):
            fb = ctx.F.bodies.get(key) if key else None
            if fb is not None and fb.kind in ('fn', 'closure'): out.append(fb)
        m = re.match(r'^<(.+) as ([^<>]+(?:<.*>)?)>::(\w+)$', (a.get('v') or '').strip())
        if m:
            ty, tr, it = m.group(1).replace(' ', ''), re.sub(r'<.*>$', '', m.group(2)), m.group(3)
            out += [b for b in ctx.F.bodies.values() if b.kind == 'fn' and b.hdr.get('item') == it and (b.hdr.get('self') or '').replace(' ', '') == ty and (b.hdr.get('trait') or '') == tr]
    return [b for b in out if not is_derive_body(b)]


def drop_evidence(ctx, body, own=True, depth=7, _seen=None, cmp=True, skip_own=False):
    """places where an element could be dropped depending on its value: in `body` itself the thinning / removing calls (DROP_CALLS; a filter
    spliced into a loop by the normal form shows as a pass without the push and is decided by the every-entry rules); in the crate
    functions it hands the entries to, also any f64 comparison (`if v.abs() <= f64::EPSILON { remove }` in a normalising constructor)."""
    _seen = _seen if _seen is not None else set()
    if body.name in _seen: return []
    _seen.add(body.name)
    out = []
    for c in body.calls:
        if c.term.get('synthetic') or (own and skip_own): continue
        if c.item in DROP_CALLS and re.search(r'Iterator|Vec|HashMap|BTreeMap|HashSet|BTreeSet|VecDeque|slice', c.name): out.append('%s: %s' % (body.site(c.bb), c.item))
    if not own and cmp:
        for bi, st in float_cmp_sites(body): out.append('%s: f64 comparison %s' % (body.site(bi), st['rv']['op']))
        for c in body.calls:
            if c.item in ('lt', 'le', 'gt', 'ge', 'partial_cmp', 'total_cmp') and 'f64' in c.name: out.append('%s: f64 comparison %s' % (body.site(c.bb), c.item))
    if depth > 0:
        for bi, st, cl in body.closures_created():
            cb = ctx.F.bodies.get(cl)
            if cb is not None: out += drop_evidence(ctx, cb, own, depth - 1, _seen, cmp, skip_own)
        for c in body.calls:
            for cb in crate_callees(ctx, body, c): out += drop_evidence(ctx, cb, False, depth - 1, _seen, cmp, skip_own)
    return out


def terms_rules(ctx):
    R = 'C19.convert.terms'
    tl = ctx.free_fn(R + '/anchor', 'qplib::convert::to_linear')
    if tl is not None:
        ev = drop_evidence(ctx, tl)
        ctx.check(not ev, R + '/linear/unfiltered', 'T-LOOPMUST', tl.name, 'a listed b entry can be dropped depending on its value between the table and the terms: %s' % '; '.join(ev[:4]), tl.site(), evidence=ev[:8])
        aggs = find_aggregates(tl, 'v1::Linear')
        terms = find_aggregates(tl, 'v1::linear::Term')
        if aggs:
            probs = []
            for bi, st in aggs:
                root = value_root(tl, agg_field_operand(st, 'terms'))
                ps = [c for c in tl.calls if c.item == 'push' and value_root(tl, c.args[0]) == root]
                los = [lo for lo in T.for_loops(tl) if any(c.bb in lo[4] for c in ps)]
                if not ps or not los: probs.append('Linear.terms is not filled in a loop'); continue
                for lo in los:
                    if not T.must_pass(tl, lo[2], {lo[1]}, {c.bb for c in ps if c.bb in lo[4]}): probs.append('a pass of the loop can skip the push of the term')
                    si = ctx.S.slice_operand(tl, lo[0].args[0])
                    if 1 not in si.params: probs.append('the loop filling Linear.terms does not run over the coefficient map')
                    restr = sorted({x.item for x in si.call_objs if x.item in RESTRICTING and 'Iterator' in (x.trait or '')})
                    if restr: probs.append('the loop filling Linear.terms is restricted by %s' % restr)
            ctx.check(not probs, R + '/linear/every-entry', 'T-LOOPMUST', tl.name, 'a listed b entry may give no term: %s' % '; '.join(probs), tl.site())
        else:
            # the Linear is not assembled here (a constructor / collect does it): `unfiltered` has decided what that constructor may do
            ctx.check(1 in ctx.S.backslice(tl, [0]).params, R + '/linear/every-entry/depends', 'T-CARRY', tl.name, 'the result does not depend on the coefficient map', tl.site())
            ctx.undecided(R + '/linear/every-entry', 'T-LOOPMUST', tl.site(), 'v1::Linear is not assembled in to_linear itself')
        if terms:
            probs = []
            for bi, st in terms:
                e = T.expr(tl, agg_field_operand(st, 'coefficient'), depth=12)
                if e[0] == 'const' or _computed(e):
                    probs.append('%s: Term.coefficient is not the listed value itself' % tl.site(bi))
                elif not any(x[0] == 'call' and x[1] == 'next' for x in _spine(e)) and not (e[0] == 'place' and e[1] == 1):
                    probs.append('%s: Term.coefficient does not come from an entry of the map' % tl.site(bi))
                ei = T.expr(tl, agg_field_operand(st, 'id'), depth=12)
                if any(x[0] == 'bin' for x in T.expr_walk(ei)) or ei[0] == 'const': probs.append('%s: Term.id is not the listed index itself' % tl.site(bi))
            ctx.check(not probs, R + '/linear/entry-unchanged', 'T-CARRY', tl.name, '; '.join(probs), tl.site())
        else:
            ar = [tl.site(bi) for bi, st in tl.stmts() if st['rv']['k'] in ('bin', 'un') and st['rv'].get('ty') == 'f64']
            ctx.check(not ar, R + '/linear/entry-unchanged/no-arithmetic', 'T-CARRY', tl.name, 'to_linear computes with the listed values at %s' % ar[:3], tl.site())
            ctx.undecided(R + '/linear/entry-unchanged', 'T-CARRY', tl.site(), 'no v1::linear::Term is built in to_linear itself')
    # the functions that pass the terms on (objective, constraints, wrap_function) must not hand them to something that removes entries either:
    # here their own filters are legitimate (explicit zeros of the dense b0) and predicates such as `quad.is_zero()` compare without removing,
    # so only removing / thinning calls inside the crate functions they call count
    ev = []; n = 0
    for suffix in ('qplib::convert::convert_objective', 'qplib::convert::convert_constraints', 'qplib::convert::wrap_function'):
        fb = ctx.F.free_fn(suffix)
        if fb is None: continue
        n += 1; ev += drop_evidence(ctx, fb, cmp=False, skip_own=True)
    if n: ctx.check(not ev, R + '/passed-on-unfiltered', 'T-LOOPMUST', 'qplib::convert', 'the terms are handed to a function that can remove entries: %s' % '; '.join(sorted(set(ev))[:4]))
    tq = ctx.free_fn(R + '/quadratic/anchor', 'qplib::convert::to_quadratic')
    if tq is not None:
        ev = drop_evidence(ctx, tq)
        ctx.check(not ev, R + '/quadratic/unfiltered', 'T-LOOPMUST', tq.name, 'a listed Q entry can be dropped depending on its value between the table and rows / columns / values: %s' % '; '.join(ev[:4]), tq.site(), evidence=ev[:8])
        ctx.check(bool(find_aggregates(tq, 'v1::Quadratic')), R + '/quadratic/assembled-here', 'T-CARRY', tq.name, 'v1::Quadratic is not assembled in to_quadratic itself (a constructor may merge / drop entries)', tq.site())


def int_value(ctx, b, e, depth=12):
    """integer an expression tree evaluates to, when it is made of literals, named `const` items (crate constant table), enum constants
    (`v1::Equality::X as i32`: the discriminant from the ADT table), casts and additions; None otherwise"""
    if depth <= 0: return None
    k = e[0]
    if k == 'const':
        v = e[1].strip()
        if v.startswith('const '): v = v[6:]
        if v in ctx.F.consts: v = ctx.F.consts[v][1]
        m = re.match(r'^(-?[0-9]+)_?[iu](8|16|32|64|128|size)$', v)
        if m: return int(m.group(1))
        m = re.match(r'^(.*)::(\w+)::\{constant#\d+\}$', v) or re.match(r'^(.*)::(\w+)$', v)
        if m:
            adt = ctx.F.adts.get(m.group(1)) or ctx.F.adt(m.group(1))
            for x in (adt or {}).get('variants', []):
                if x['name'] == m.group(2): return x['discr']
        return None
    if k == 'cast': return int_value(ctx, b, e[2], depth - 1)
    if k == 'bin' and e[1].replace('WithOverflow', '') == 'Add':
        a, c = int_value(ctx, b, e[2], depth - 1), int_value(ctx, b, e[3], depth - 1)
        return a + c if a is not None and c is not None else None
    if k == 'proj' and e[1][0] == 'bin' and e[1][1].endswith('WithOverflow') and [f for a_, f in e[2]] == ['0']: return int_value(ctx, b, e[1], depth - 1)
    return None


def equality_is_le(ctx, b, op, LS):
    """Constraint.equality is `<= 0`: the operand evaluates to the schema number of v1::Equality::LessThanOrEqualToZero -- written as the enum
    cast, as a named constant holding it, or as the number"""
    adt = ctx.F.adt('v1::Equality')
    want = [x['discr'] for x in (adt or {}).get('variants', []) if x['name'] == 'LessThanOrEqualToZero']
    v = int_value(ctx, b, T.expr(b, op, depth=12)) if op is not None else None
    if v is not None and want: return v == want[0]
    return op is not None and LS.slice_operand(b, op).has_const(r'Equality::LessThanOrEqualToZero')


def sign_rules(ctx):
    """two-sided constraints c_l <= f(x) <= c_u.  Per side, inside the region guarded by `c != +-inf`:
       upper: f(x) - c_u <= 0   : constant -c_u, coefficients as they are, id i
       lower: -f(x) + c_l <= 0  : constant +c_l, both coefficient lists * -1, id m + i
    and the constraint built there is `<= 0` and reaches the returned list."""
    R = 'C19.convert.sign'
    cc0 = helper_or_caller(ctx, R + '/anchor', 'qplib::convert::convert_constraints')
    if cc0 is None: return
    cc = local_form(ctx, cc0)
    LS = local_slicer(ctx) if cc is not cc0 else ctx.S
    sides = {}; idx_of = {}; bound_op = {}; cands = {}; tests = {'+inf': set(), '-inf': set()}
    for bi, st in float_cmp_sites(cc, ('Ne', 'Eq')):
        infs = [o['v'] for o in st['rv']['ops'] if o['k'] == 'const' and 'INFINITY' in o['v']]
        if not infs: continue
        key = '-inf' if 'NEG_' in infs[0] else '+inf'
        other = [o for o in st['rv']['ops'] if o['k'] != 'const']
        if not other: continue
        bound = T.expr(cc, other[0], depth=10)
        idx = [f for a, f in T.expr_fields(bound) if a == 'tuple']
        for g in T.guards_from_local(cc, st['dst']['l'], bi):
            emit, skip = (g.true_bb, g.false_bb) if st['rv']['op'] == 'Ne' else (g.false_bb, g.true_bb)
            reg, _ = exclusive_regions(cc, bi, emit, skip)
            tests[key].add(bi)
            # (a) the constant handed to wrap_function: +-bound
            const_sign = None
            wf = [c for c in cc.calls if c.bb in reg and c.item == 'wrap_function']
            if len(wf) == 1 and len(wf[0].args) == 3:
                sg, core = sign_and_core(T.expr(cc, wf[0].args[2], depth=10))
                same = [f for a, f in T.expr_fields(core) if a == 'tuple'] == idx and not any(x[0] in ('bin', 'un') for x in T.expr_walk(T.strip_wrappers(core)))
                const_sign = sg if same else 'other'
            # (b) coefficient lists multiplied by -1 inside the region: in place (`*v *= -1.`, `*v = -*v`) or rebuilt
            # (`q.values = q.values.iter().map(|v| -v).collect()`, `Term { id: t.id, coefficient: -t.coefficient }`): a negation of an f64 that is
            # an element of Quadratic.values / of Linear.terms (.coefficient) -- by the place written, the place read, or the list looped over
            negated = set()
            loop_blocks = reg | {b3 for lo_ in T.for_loops(cc) if lo_[4] & reg for b3 in lo_[4]}
            def classify(ops, dst=None):
                fl = set()
                if dst is not None and dst['p'] and any(_reads_place(cc, o, dst) for o in ops):
                    fl |= {f for a, f in LS.slice_operand(cc, {'k': 'copy', 'pl': {'l': dst['l'], 'p': []}}).fields} | {f for a, f in fields_of_place(dst)}
                for o in ops:
                    if o['k'] not in ('copy', 'move'): continue
                    e = T.expr(cc, o, depth=10)
                    fl |= {f for a, f in T.expr_fields(e) if a.startswith('v1::')}
                    for x in T.expr_walk(e):
                        if x[0] == 'call' and x[1] == 'next' and len(x) > 4:
                            nc = [c for c in cc.calls if c.bb == x[4]]
                            if nc and nc[0].bb in loop_blocks: fl |= {f for a, f in LS.slice_operand(cc, nc[0].args[0]).fields if a.startswith('v1::')}
                if 'values' in fl: negated.add('quadratic.values')
                if 'terms' in fl or 'coefficient' in fl: negated.add('linear.terms')
            def minus_one(o): return o['k'] == 'const' and T.f64_const(o['v']) == -1.0
            for b2, s2 in cc.stmts():
                if b2 not in reg: continue
                rv = s2['rv']
                if (rv['k'] == 'bin' and rv['op'] == 'Mul' and rv.get('ty') == 'f64' and any(minus_one(o) for o in rv['ops'])) or (rv['k'] == 'un' and rv['op'] == 'Neg'):
                    classify(rv['ops'], s2['dst'])
            for c in cc.calls:           # `v * -1.` / `-v` on a `&f64` go through the operator traits
                m = T.ARITH_CALL.match(c.name) if c.bb in reg else None
                if m and ((m.group(2) == 'Mul' and any(minus_one(a) for a in c.args)) or m.group(2) == 'Neg'): classify(c.args)
            for c in cc.calls:           # `*v *= -1.` through the MulAssign trait (generic code)
                if c.bb in reg and T.ASSIGN_CALL.match(c.name) and 'Mul' in c.name and any(a['k'] == 'const' and T.f64_const(a['v']) == -1.0 for a in c.args):
                    fl = {f for a, f in LS.slice_operand(cc, c.args[0]).fields}
                    if 'values' in fl: negated.add('quadratic.values')
                    if 'terms' in fl or 'coefficient' in fl: negated.add('linear.terms')
            # (c) the constraint built in the region
            ids = []; le = []; emitted = []
            for b2, st2 in find_aggregates(cc, 'v1::Constraint'):
                if b2 not in reg: continue
                ix = T.expr(cc, agg_field_operand(st2, 'id'), depth=10)
                add = any((x[0] == 'bin' and x[1].startswith('Add')) or (x[0] == 'call' and x[1] == 'add') for x in T.expr_walk(ix))
                m = (QF, 'num_constraints') in T.expr_fields(ix)
                ids.append('m+i' if add and m else ('i' if not add and not m else 'other'))
                le.append(equality_is_le(ctx, cc, agg_field_operand(st2, 'equality'), LS))
                emitted.append(flows_to_return(cc, st2['dst']['l']))
            cands.setdefault(key, []).append((0 if ids else 1, len(reg), dict(constant=const_sign, negated=sorted(negated), ids=ids, le=le, emitted=emitted, site=cc.site(bi)), idx, other[0], bi))
    # a bound may be compared with its infinity more than once (`if c_u == inf && c_l == -inf { continue }` in front of the two sides): the side is
    # the innermost guard that has a Constraint built under it
    main_test = {}
    for key, cs in cands.items():
        best = sorted(cs, key=lambda x: (x[0], x[1]))[0]
        sides[key], idx_of[key], bound_op[key], main_test[key] = best[2], best[3], best[4], best[5]
    want = {'+inf': dict(constant=-1, negated=[], ids=['i'], le=[True], emitted=[True]),
            '-inf': dict(constant=1, negated=['linear.terms', 'quadratic.values'], ids=['m+i'], le=[True], emitted=[True])}
    text = {'+inf': 'upper side (emitted iff c_u != +inf): constant -c_u, coefficients kept, id i',
            '-inf': 'lower side (emitted iff c_l != -inf): all coefficients * -1, constant +c_l, id m+i'}
    for key in ('+inf', '-inf'):
        got = sides.get(key)
        name = 'upper' if key == '+inf' else 'lower'
        if got is None:
            ctx.bad(R + '/%s/guard' % name, 'T-BRANCHFX', cc.name, 'no test `c != %s` guarding the %s side' % (key, name), cc.site()); continue
        site = got.pop('site')
        for k in ('constant', 'negated', 'ids', 'le', 'emitted'):
            ctx.check(got[k] == want[key][k], R + '/%s/%s' % (name, k), 'T-BRANCHFX', cc.name, '%s: %s is %s, expected %s  [%s]' % (name, k, got[k], want[key][k], text[key]), site, table=str(got))
    every_row_rules(ctx, R, cc, LS, tests, main_test)
    # which bound list feeds which test (LIST_SOURCE_IDIOMS)
    for key, name, want_list in (('+inf', 'upper', 'constr_upper_cs'), ('-inf', 'lower', 'constr_lower_cs')):
        op = bound_op.get(key)
        if op is None: continue
        src = source_list(ctx, cc, op, ('constr_lower_cs', 'constr_upper_cs', 'bs_non_zeroes'))
        if src is None:
            # weaker, still checked: the two tests look at different values and the tested value depends on the right list at all
            sl = LS.slice_operand(cc, op)
            ctx.check(sl.has_field(QF, want_list) and bound_op.get('+inf') != bound_op.get('-inf') and idx_of.get('+inf') != idx_of.get('-inf'), R + '/side-uses-its-own-bound/%s/depends' % name, 'T-CARRY', cc.name,
                      'the value compared with %s does not depend on %s' % (key, want_list), cc.site())
            ctx.undecided(R + '/side-uses-its-own-bound/' + name, 'T-CARRY', cc.site(), 'cannot tie the value compared with %s to one of the zipped lists' % key)
        else:
            ctx.check(src == want_list, R + '/side-uses-its-own-bound/' + name, 'T-CARRY', cc.name, 'the value compared with %s is an element of %s, it must be one of %s' % (key, src, want_list), cc.site())


# how "every variable gets the default coefficient" may be written; (how, block) per site found
DENSE_FILL_IDIOMS = {
    'range-loop': '`(0..num_vars).map(|i| .. default_b0 ..).collect()` == `for i in 0..num_vars { push(.. default_b0 ..) }` == `extend((0..num_vars).map(..))`',
    'from_elem':  '`vec![default_b0; num_vars]` (also of a struct holding it)',
    'resize':     '`v.resize(num_vars, default_b0)`',
    'repeat':     '`repeat(default_b0).take(num_vars)` / `repeat_n(default_b0, num_vars)`',
}


def dense_fill_sites(ctx, ob):
    def has(o, f):
        if o['k'] not in ('copy', 'move'): return False
        return (QF, f) in T.expr_fields(T.expr(ob, o, depth=10)) or ctx.S.slice_operand(ob, o).has_field(QF, f) and not ctx.S.slice_operand(ob, o).call_objs
    out = []
    # range-loop: a Range 0..num_vars, a loop fed by num_vars, default_b0 read inside the loop
    rng = [st for bi, st in ob.stmts() if st['rv']['k'] == 'agg' and st['rv']['adt'].endswith('ops::Range')
           and re.match(r'^0_(u64|usize)$', st['rv']['ops'][0].get('v') or '') and (QF, 'num_vars') in T.expr_fields(T.expr(ob, st['rv']['ops'][1]))]
    if rng:
        for lo in T.for_loops(ob):
            si = ctx.S.slice_operand(ob, lo[0].args[0])
            if not si.has_field(QF, 'num_vars') or si.has_field(QF, 'b0_non_defaults'): continue
            # the default read inside the loop: the field itself, or a local / helper parameter / closure capture that holds it
            # (`let QplibFile { default_b0, .. } = qplib`, `to_dense_linear(n, *default_b0, ..)` inlined by the normal form)
            reads = any(has(o, 'default_b0') for bi, st in ob.stmts() if bi in lo[4] for o in st['rv'].get('ops', []) if o['k'] in ('copy', 'move'))
            reads = reads or any(has({'k': 'copy', 'pl': st['rv']['pl']}, 'default_b0') for bi, st in ob.stmts() if bi in lo[4] and 'pl' in st['rv'])
            if reads: out.append(('range-loop', lo[1]))
    for c in ob.calls:
        if c.item == 'from_elem' and len(c.args) == 2 and has(c.args[0], 'default_b0') and has(c.args[1], 'num_vars'): out.append(('from_elem', c.bb))
        if c.item == 'resize' and len(c.args) == 3 and has(c.args[1], 'num_vars') and has(c.args[2], 'default_b0'): out.append(('resize', c.bb))
        if c.item == 'repeat_n' and len(c.args) == 2 and has(c.args[0], 'default_b0') and has(c.args[1], 'num_vars'): out.append(('repeat', c.bb))
        if c.item == 'take' and len(c.args) == 2 and has(c.args[1], 'num_vars'):
            s0 = ctx.S.slice_operand(ob, c.args[0])
            if any(x.item == 'repeat' and x.args and has(x.args[0], 'default_b0') for x in s0.call_objs): out.append(('repeat', c.bb))
    return out


def every_row_rules(ctx, R, cc, LS, tests, main_test):
    """one <= 0 constraint per finite side of EVERY declared constraint: in the loop over the constraint rows no pass may get back to the
    loop header, or leave the loop, without having compared the row's c_u with +inf and its c_l with -inf (any of the comparisons of that
    bound counts, so `if c_u == inf && c_l == -inf { continue }` is fine, `if row_is_empty { continue }` is not); the row iterator is not
    thinned out (filter / take / skip / step_by ..); the loop is not skipped as a whole."""
    if '+inf' not in main_test or '-inf' not in main_test: return          # reported as */guard
    lo_u = innermost_loop(cc, main_test['+inf']); lo_l = innermost_loop(cc, main_test['-inf'])
    rows = [lo for lo in T.for_loops(cc) if lo_u is not None and lo[1] == lo_u[0]]
    if lo_u is None or lo_l is None or lo_u[0] != lo_l[0] or not rows:
        ctx.bad(R + '/every-row/loop', 'T-LOOPMUST', cc.name, 'the two side tests are not in one loop over the constraint rows', cc.site()); return
    lo = rows[0]; header, some_bb, blocks = lo[1], lo[2], lo[4]
    exits = {x for bb in blocks for x in cc.succ(bb) if x not in blocks and not cc.blocks[x]['cleanup']} - {lo[3]}
    # exits that only panic (`terms[i]` out of range, `unwrap`) do not drop rows silently
    good_ends = cc.strict_ok_exits() if cc.err_exits() else set(cc.return_blocks())
    exits = {x for x in exits if cc.reach([x]) & good_ends}
    for key, name in (('+inf', 'upper'), ('-inf', 'lower')):
        ok = T.must_pass(cc, some_bb, {header} | exits, tests[key] & blocks)
        ctx.check(ok, R + '/every-row/' + name, 'T-LOOPMUST', cc.name,
                  'a constraint row can be passed over without its %s bound being compared with %s (a `continue` / `break` / `return` before the side test drops the row)' % (name, key), cc.site(main_test[key]))
    si = LS.slice_operand(cc, lo[0].args[0])
    restr = sorted({x.item for x in si.call_objs if x.item in RESTRICTING and 'Iterator' in (x.trait or '')})
    whole = T.must_pass(cc, 0, set(cc.return_blocks()), {header})
    ctx.check(not restr and whole and not exits, R + '/every-row/all-rows', 'T-LOOPMUST', cc.name,
              'the loop over the constraint rows %s' % ('is restricted by %s' % restr if restr else ('can be skipped as a whole' if not whole else 'can be left before the rows are exhausted (`break` / `return`)')), cc.site(lo[0].bb))


def wrap_only_variant(ctx, b, c):
    """for `x.into()` / `T::from(x)` producing a v1::Function: the variant of function::Function the crate impl `From<X> for v1::Function` wraps
    x into, if that impl does nothing else (one path, no calls, the argument handed on unchanged); 'other' for a wrap into a variant that is
    none of Constant / Linear / Quadratic or for the identity wrap of an already built enum value; None if the impl is not a plain wrap"""
    a = c.args[0]
    if a['k'] not in ('copy', 'move'): return None
    xt = re.sub(r"^&('\w+ )?(mut )?", '', b.locals[a['pl']['l']]).strip() if not a['pl']['p'] else None
    impls = [ib for ib in ctx.F.bodies.values() if ib.kind == 'fn' and ib.hdr.get('item') == 'from' and (ib.hdr.get('self') or '') == 'v1::Function'
             and (ib.hdr.get('trait') or '').endswith('convert::From') and (xt is None or [t.replace(' ', '') for t in ib.hdr.get('targs', [])] == [xt.replace(' ', '')])]
    if len(impls) != 1: return None
    ib = impls[0]
    if ib.calls or any(ib.blocks[x]['term']['k'] == 'switch' for x in ib.live): return None
    ctx.functions.add(ib.name)
    wraps = [st for bi, st in ib.stmts() if st['rv']['k'] == 'agg' and 'function::Function::' in st['rv']['adt']]
    outer = [st for bi, st in ib.stmts() if st['rv']['k'] == 'agg' and st['rv']['adt'].endswith('v1::Function')]
    if len(outer) != 1: return None
    if not wraps: return 'other'
    if len(wraps) != 1 or len(wraps[0]['rv']['ops']) != 1 or T.strip_wrappers(T.expr(ib, wraps[0]['rv']['ops'][0])) != ('place', 1, []): return None
    v = wraps[0]['rv']['adt'].split('::')[-1]
    return v if v in ('Constant', 'Linear', 'Quadratic') else 'other'


def wrap_rules(ctx):
    """wrap_function(quad, linear, constant): whatever representation is chosen, the constant and the linear part are in it"""
    R = 'C19.convert.wrap'
    b = ctx.free_fn(R + '/anchor', 'qplib::convert::wrap_function')
    if b is None: return
    fp = [i for i in range(1, b.argc + 1) if b.locals[i] == 'f64']
    if len(fp) != 1:
        ctx.bad(R + '/constant-kept', 'T-CARRY', b.name, 'wrap_function has no single f64 parameter', b.site()); return
    K = fp[0]
    def is_const_param(o): return T.strip_wrappers(T.expr(b, o)) == ('place', K, [])
    def root_of(o): return T.access_path(b, o, transparent=T.TRANSPARENT_NOCLONE)[1]
    # writes `X.constant = constant` / `Q.linear = Some(L)`: (block, index in block, root written, root of the value)
    cw = []; lw = []
    for bi in sorted(b.live):
        for si, st in enumerate(b.blocks[bi]['st']):
            if 'dst' not in st or not st['dst']['p']: continue
            last = fields_of_place(st['dst'])[-1:]
            if last == [('v1::Linear', 'constant')] and st['rv']['k'] == 'use' and is_const_param(st['rv']['ops'][0]): cw.append((bi, si, st['dst']['l']))
            if last == [('v1::Quadratic', 'linear')]:
                e = T.expr(b, st['rv']['ops'][0]) if st['rv'].get('ops') else None
                src = None
                for k2, b2, d2 in (b.defs_of(st['rv']['ops'][0]['pl']['l']) if st['rv']['k'] == 'use' and st['rv']['ops'][0]['k'] in ('copy', 'move') else []):
                    if k2 == 'stmt' and d2['rv']['k'] == 'agg' and d2['rv']['adt'].endswith('Option::Some'): src = root_of(d2['rv']['ops'][0])
                lw.append((bi, si, st['dst']['l'], src))
    def preceded(agg_bb, agg_si, writes):
        """every path from the entry to the aggregate passes one of the writes"""
        same = [w for w in writes if w[0] == agg_bb and w[1] < agg_si]
        if same: return True
        via = {w[0] for w in writes if w[0] != agg_bb}
        return bool(via) and T.must_pass(b, 0, {agg_bb}, via)
    # where a form of the function is built: (block, index in block, the payload operand).  FORM_SITE_IDIOMS:
    #   `v1::function::Function::Linear(linear)` written out (an aggregate in this body)
    #   `linear.into()` / `v1::Function::from(linear)` through a crate `From<X> for v1::Function` impl whose body does nothing but wrap its
    #   argument into one variant (wrap_only_variant reads the impl's body; an impl that computes or normalises is not accepted)
    forms = {'Constant': [], 'Linear': [], 'Quadratic': []}
    opaque = []
    for bi in sorted(b.live):
        for si, st in enumerate(b.blocks[bi]['st']):
            if 'dst' in st and st['rv']['k'] == 'agg':
                for f in forms:
                    if st['rv']['adt'].endswith('function::Function::' + f): forms[f].append((bi, si, st['rv']['ops'][0]))
    for c in b.calls:
        if c.item in ('into', 'from') and len(c.args) == 1 and not c.dst['p'] and re.sub(r"^&('\w+ )?(mut )?", '', b.locals[c.dst['l']]).strip().endswith('v1::Function'):
            v = wrap_only_variant(ctx, b, c)
            if v in forms: forms[v].append((c.bb, len(b.blocks[c.bb]['st']), c.args[0]))
            elif v is None: opaque.append(b.site(c.bb))
    probs = ['a v1::Function is produced by a conversion that is not a plain wrap at %s' % opaque[:3]] if opaque else []
    for bi, si, op in forms['Constant']:
        if not is_const_param(op): probs.append('Function::Constant is not built from the constant')
    for bi, si, op in forms['Linear']:
        r = root_of(op)
        if not preceded(bi, si, [w for w in cw if w[2] == r]): probs.append('a Function::Linear is built without `linear.constant = constant` on the way')
    ctx.check(not probs and (forms['Constant'] or forms['Linear'] or forms['Quadratic']), R + '/constant-kept', 'T-CARRY', b.name,
              'the constant is not carried into every form (constant / linear / quadratic): %s' % '; '.join(probs), b.site())
    probs = []
    for bi, si, op in forms['Quadratic']:
        r = root_of(op)
        mine = [w for w in lw if w[2] == r]
        if not preceded(bi, si, mine): probs.append('a Function::Quadratic is built without `quad.linear = Some(linear)` on the way'); continue
        lin = {w[3] for w in mine}
        if not preceded(bi, si, [w for w in cw if w[2] in lin]): probs.append('a Function::Quadratic is built without `linear.constant = constant` on the way')
    ctx.check(not probs and bool(forms['Quadratic']), R + '/linear-attached', 'T-CARRY', b.name,
              'the linear part (with the constant) is not attached to the quadratic function: %s' % ('; '.join(probs) or 'no Function::Quadratic built'), b.site())


def helper_or_caller(ctx, rule, suffix, caller_suffix='qplib::convert::convert'):
    """the body a clause is decided on: the single-use helper `suffix` if it exists, else its caller (the helper was folded into it).  The
    rules of the clause are dataflow conditions on whatever body holds the code, so they are simply decided there; if the code is not there
    either they fail (fail closed).  Only when neither body exists is the anchor lost."""
    b = ctx.F.free_fn(suffix)
    if b is None: b = ctx.F.free_fn(caller_suffix)
    if b is None:
        ctx.lost(rule, '%s (nor its caller %s)' % (suffix, caller_suffix)); return None
    ctx.functions.add(b.name)
    return b


def convert_rules(ctx):
    R = 'C19.convert'
    b = ctx.free_fn(R + '/anchor', 'qplib::convert::convert')
    if b is None: return
    cover(ctx, R + '.cover', b, QF, exempt=STARTING)
    infinity_rules(ctx, b)
    half_rules(ctx)
    terms_rules(ctx)
    sign_rules(ctx)
    # objective: default b0 over all variables, overridden by non-defaults; constant
    ob = helper_or_caller(ctx, R + '.b0/anchor', 'qplib::convert::convert_objective')
    if ob is not None:
        s = ctx.S.backslice(ob, [0])
        for f in ('q0_non_zeroes', 'b0_non_defaults', 'default_b0', 'num_vars', 'obj_constant'):
            ctx.check(s.has_field(QF, f), R + '.b0/uses-' + f, 'T-CARRY', ob.name, 'objective does not depend on QplibFile.%s' % f, ob.site())
        wf = [c for c in ob.calls if c.item == 'wrap_function']
        # every function the objective can be returned as gets obj_constant itself (an early `return wrap_function(..)` makes two calls)
        ok = bool(wf) and all(len(c.args) == 3 and (QF, 'obj_constant') in T.access_path(ob, c.args[2])[0] and not any(x[0] in ('un', 'bin') for x in T.expr_walk(T.expr(ob, c.args[2]))) for c in wf)
        ctx.check(ok, R + '.b0/constant', 'T-CARRY', ob.name, 'objective constant is not obj_constant unchanged', ob.site())
        fills = dense_fill_sites(ctx, ob)
        ctx.check(bool(fills), R + '.b0/default-over-all-variables', 'T-LOOPMUST', ob.name, 'the default b0 is not expanded over all num_vars variables (DENSE_FILL_IDIOMS)', ob.site(),
                  how=sorted({h for h, bb in fills}))
        # override: a loop over b0_non_defaults every pass of which writes the entry's value into the dense collection (a field of an
        # element, an element, a map entry), after the default was filled in
        def leaves_of(t):
            return set() if t is None else ({t[1]} if t[0] == 'leaf' else set().union(*[leaves_of(x) for x in t[1]]))
        loops = [lo for lo in T.for_loops(ob) if 'b0_non_defaults' in leaves_of(item_tree(ctx, ob, lo[0].args[0]))] or \
                [lo for lo in T.for_loops(ob) if ctx.S.slice_operand(ob, lo[0].args[0]).has_field(QF, 'b0_non_defaults')]
        okov = False; why = 'no loop over b0_non_defaults'
        for lo in loops:
            def from_item(o):
                return o['k'] in ('copy', 'move') and any(x[0] == 'call' and x[1] == 'next' and len(x) > 4 and x[4] == lo[0].bb for x in T.expr_walk(T.expr(ob, o, depth=10)))
            ws = {bi for bi, st in ob.stmts() if bi in lo[4] and st['dst']['p'] and st['rv']['k'] == 'use' and from_item(st['rv']['ops'][0])}
            ws |= {c.bb for c in ob.calls if c.bb in lo[4] and c.item in ('insert', 'push') and any(from_item(a) for a in c.args[1:])}
            if not ws: why = 'the loop over b0_non_defaults stores nothing taken from its entries'; continue
            if not T.must_pass(ob, lo[2], {lo[1]}, ws): why = 'a listed entry can be skipped (a pass of the loop without the store)'; continue
            late = [bb for h, bb in fills if not (lo[1] in ob.reach([bb]) and bb not in ob.reach([lo[1]]))]
            if fills and len(late) == len(fills): why = 'the default is filled in after the non-default entries were written'; continue
            okov = True
        ctx.check(okov, R + '.b0/non-defaults-override', 'T-LOOPMUST', ob.name, 'non-default b0 entries do not override the default for every listed index: %s' % why, ob.site())
    wrap_rules(ctx)
    # variables
    dv = helper_or_caller(ctx, R + '.vars/anchor', 'qplib::convert::convert_dvars')
    if dv is not None:
        def kinds_in(reg):
            ks = {re.search(r'Kind::(\w+)', o['v']).group(1) for b3, st in dv.stmts() if b3 in reg for o in st['rv'].get('ops', []) if o['k'] == 'const' and re.search(r'Kind::(\w+)', o['v'])}
            ks |= {st['rv']['adt'].split('::')[-1] for b3, st in dv.stmts() if b3 in reg and st['rv']['k'] == 'agg' and 'decision_variable::Kind::' in st['rv']['adt']}
            return sorted(ks)
        rows = enum_rows(ctx, dv, 'qplib::parser::VarType', kinds_in)
        ctx.check(rows == {'Continuous': ['Continuous'], 'Integer': ['Integer'], 'Binary': ['Binary']}, R + '.vars/kind-mapping', 'T-BRANCHFX', dv.name, 'variable types map to %s' % rows, dv.site())
        # declared variables keep their bounds: EVERY Bound built for a variable -- whatever its kind -- takes lower / upper unchanged from
        # lower_bounds / upper_bounds of the same row (LIST_SOURCE_IDIOMS)
        aggs = find_aggregates(dv, 'v1::Bound')
        LISTS = ('var_types', 'lower_bounds', 'upper_bounds')
        probs = []; wrong = []; unknown = []
        for bi, st in aggs:
            d = dict(zip(st['rv']['fields'], st['rv']['ops']))
            for part, want_list in (('lower', 'lower_bounds'), ('upper', 'upper_bounds')):
                e = T.expr(dv, d[part], depth=12)
                if e[0] == 'const': probs.append('%s: Bound.%s is the constant %s' % (dv.site(bi), part, e[1][:20])); continue
                if _computed(e):
                    probs.append('%s: Bound.%s is computed, not taken over' % (dv.site(bi), part)); continue
                src = source_list(ctx, dv, d[part], LISTS)
                if src is None: unknown.append('%s.%s' % (dv.site(bi), part))
                elif src != want_list: wrong.append('%s: Bound.%s comes from %s' % (dv.site(bi), part, src))
            if T.expr(dv, d['lower'], depth=12) == T.expr(dv, d['upper'], depth=12): probs.append('%s: Bound.lower and Bound.upper are the same value' % dv.site(bi))
        ctx.check(bool(aggs) and not probs, R + '.vars/bound', 'T-CARRY', dv.name, 'Bound{lower, upper} is not the pair of bounds read for the variable on every path: %s' % ('; '.join(probs) or 'no Bound is built'), dv.site())
        # which list feeds which part; formerly "zip order is (var_types, lower_bounds, upper_bounds)"
        if wrong or (aggs and not unknown):
            ctx.check(not wrong, R + '.vars/lists', 'T-CARRY', dv.name, 'Bound{lower, upper} must be filled from (lower_bounds, upper_bounds): %s' % '; '.join(wrong), dv.site())
        else:
            sl = ctx.S.backslice(dv, [0])
            ctx.check(all(sl.has_field(QF, f) for f in LISTS), R + '.vars/lists/depends', 'T-CARRY', dv.name, 'the variables do not depend on var_types, lower_bounds and upper_bounds', dv.site())
            ctx.undecided(R + '.vars/lists', 'T-CARRY', dv.site(), 'cannot tie Bound.lower / Bound.upper to one list each: %s' % unknown)
        s = ctx.S.backslice(dv, [0])
        ctx.check(s.has_field(QF, 'var_names'), R + '.vars/names', 'T-CARRY', dv.name, 'variable names are not carried', dv.site())


# how the value handled in a loop may be tied to the list it was taken from (source_list); one entry per idiom
LIST_SOURCE_IDIOMS = {
    'zip':      '`for (a, b) in xs.iter().zip(ys)`: leaf k of the item tuple is the k-th zipped list; nesting as built by the zips',
    'izip':     '`izip!(xs, ys, zs)` == `xs.into_iter().zip(ys).zip(zs).map(|((a, b), c)| (a, b, c))`: the flattening closure is read, not assumed',
    'enumerate': '`.enumerate()` puts the index in front: (i, item)',
    'index':    '`xs[i]`, `xs.get(i)`, `for x in xs` / `xs.iter()`: the list is on the access path of the value itself',
}
_ITER_IDENTITY = re.compile(r'::(into_iter|iter|iter_mut|by_ref|copied|cloned|rev|deref|deref_mut|as_ref|as_slice|peekable|fuse)(::<.*>)?$')
_ELEMENT_OF = re.compile(r'::(index|index_mut|get|get_mut|get_unchecked|first|last|unwrap|expect|deref|deref_mut|as_ref|clone|cloned|copied|borrow|into|from)(::<.*>)?$')


def closure_body(ctx, b, a):
    """body of the closure an operand holds: found through its defining aggregate (plain copies / references followed), not through the
    slice -- a slice also names every closure of the callees the value passes"""
    o = a
    for _ in range(6):
        if o['k'] not in ('copy', 'move') or o['pl']['p']: return None
        ds = [d for d in b.defs_of(o['pl']['l']) if not (d[0] == 'stmt' and d[2]['dst']['p'])]
        if len(ds) != 1 or ds[0][0] != 'stmt': return None
        rv = ds[0][2]['rv']
        if rv['k'] == 'agg' and rv['adt'].startswith('closure:'): return ctx.F.bodies.get(rv['adt'][8:])
        if rv['k'] == 'use': o = rv['ops'][0]; continue
        if rv['k'] == 'ref': o = {'k': 'copy', 'pl': rv['pl']}; continue
        return None
    return None


def item_tree(ctx, b, operand, depth=16):
    """shape of the items of the iterator in `operand`, leaves labelled with the QplibFile list they come from:
    ('leaf', field | '#index' | None) | ('tuple', [subtrees]).  None when the chain has a step that is not understood."""
    if depth <= 0 or operand['k'] not in ('copy', 'move'): return None
    fs = [f for a, f in T.access_path(b, operand, transparent=_ITER_IDENTITY)[0] if a.endswith('QplibFile')]
    pl = operand['pl']
    ds = [d for d in b.defs_of(pl['l']) if not (d[0] == 'stmt' and d[2]['dst']['p'])]
    if len(ds) == 1 and ds[0][0] == 'call' and not _projs(pl):
        c = [x for x in b.calls if x.bb == ds[0][1]][0]
        tr = c.trait or ''
        if c.item == 'enumerate' and tr.endswith('Iterator'):
            sub = item_tree(ctx, b, c.args[0], depth - 1)
            return ('tuple', [('leaf', '#index'), sub]) if sub is not None else None
        if c.item == 'zip' and tr.endswith('Iterator'):
            a0 = item_tree(ctx, b, c.args[0], depth - 1); a1 = item_tree(ctx, b, c.args[1], depth - 1)
            return ('tuple', [a0, a1]) if a0 is not None and a1 is not None else None
        if c.item == 'map' and tr.endswith('Iterator') and len(c.args) == 2:
            sub = item_tree(ctx, b, c.args[0], depth - 1)
            cb = closure_body(ctx, b, c.args[1])
            if sub is None or cb is None or cb.argc != 2: return None
            # the closure must be a pure re-tupling of its argument: `|((a, b), c)| (a, b, c)`
            rets = [st for bi, st in cb.stmts() if st['dst'] == {'l': 0, 'p': []}]
            if len(rets) != 1 or rets[0]['rv']['k'] != 'agg' or rets[0]['rv']['adt'] != 'tuple' or cb.calls: return None
            out = []
            for o in rets[0]['rv']['ops']:
                e = T.expr(cb, o)
                if e[0] != 'place' or e[1] != 2: return None
                out.append(tree_at(sub, [f for a, f in e[2] if a == 'tuple']))
            return ('tuple', out) if all(x is not None for x in out) else None
        if _ITER_IDENTITY.search(T.strip_generics_tail(c.name)) and c.args:
            return item_tree(ctx, b, c.args[0], depth - 1)
        return None
    if len(ds) == 1 and ds[0][0] == 'stmt' and ds[0][2]['rv']['k'] in ('use', 'ref') and not fs:
        rv = ds[0][2]['rv']
        src = rv['ops'][0] if rv['k'] == 'use' else {'k': 'copy', 'pl': rv['pl']}
        return item_tree(ctx, b, src, depth - 1)
    if fs: return ('leaf', fs[-1])
    root = T.access_path(b, operand, transparent=_ITER_IDENTITY)[1]
    return ('leaf', '#%d' % root) if root is not None and 1 <= root <= b.argc else None


def _spine(e):
    """the nodes of an expression along its receiver chain (projections, first arguments): what the value *is*, not what indexes it"""
    out = []
    for _ in range(30):
        out.append(e)
        if e[0] == 'proj': e = e[1]
        elif e[0] in ('cast', 'un'): e = e[2]
        elif e[0] == 'call' and e[3]: e = e[3][0]
        else: break
    return out


def _computed(e):
    """is the value computed (arithmetic, a non-transparent call) rather than taken over from a place / an iterator item?  The walk stops at the
    `next` that delivers the item: what the iterator is made of is source_list's business."""
    for x in _spine(e):
        if x[0] == 'call' and x[1] == 'next': return False
        if x[0] in ('bin', 'un'): return True
        if x[0] == 'call' and not _ELEMENT_OF.search(T.strip_generics_tail(x[2])) and not T.TRANSPARENT.search(T.strip_generics_tail(x[2])): return True
    return False


def tree_at(tree, path):
    for k in path:
        if tree is None or tree[0] != 'tuple' or not k.isdigit() or int(k) >= len(tree[1]): return None
        tree = tree[1][int(k)]
    return tree


def source_list(ctx, b, operand, lists):
    """which QplibFile list in `lists` the value of `operand` is an element of (LIST_SOURCE_IDIOMS); None = not determined"""
    e = T.expr(b, operand, depth=14)
    path = []
    for _ in range(20):
        if e[0] == 'proj': path = list(e[2]) + path; e = e[1]; continue
        if e[0] in ('cast', 'un') : e = e[2]; continue
        if e[0] == 'call' and e[1] == 'next' and 'Iterator' in e[2]:
            c = [x for x in b.calls if x.bb == e[4]]
            if not c: return None
            tree = item_tree(ctx, b, c[0].args[0])
            # `next(&mut it)`: the tree of `it`
            leaf = tree_at(tree, [f for a, f in path if a == 'tuple']) if tree is not None else None
            if leaf is not None and leaf[0] == 'leaf' and leaf[1] in lists: return leaf[1]
            return None
        if e[0] == 'call' and _ELEMENT_OF.search(T.strip_generics_tail(e[2])) and e[3]: e = e[3][0]; continue
        break
    if e[0] == 'place':
        fs = [f for a, f in e[2] if a.endswith('QplibFile') and f in lists]
        if len(set(fs)) == 1: return fs[0]
        if 1 <= e[1] <= b.argc: return None
        # a local bound to the field earlier (`let QplibFile { xs, .. } = qplib`)
        fs = [f for a, f in T.access_path(b, {'k': 'copy', 'pl': {'l': e[1], 'p': []}})[0] if a.endswith('QplibFile') and f in lists]
        if len(set(fs)) == 1: return fs[0]
    return None


def enum_rows(ctx, b, ty, pick):
    """{variant: pick(blocks reachable when every test on the enum `ty` is decided for that variant)} — the arm of a `match`,
    of an `if x == K::V .. else ..` chain, of a helper `fn` inlined by the normal form (KIND_TEST_IDIOMS)"""
    adt = ctx.F.adt(ty)
    if not adt: return {}
    short = ty.split('::')[-1]
    return {v['name']: pick(reach_under(ctx, b, short, v)) for v in adt['variants']}


def check(ctx):
    codes_rules(ctx); section_rules(ctx); token_rules(ctx); errors_rules(ctx); convert_rules(ctx)
    ctx.floor('C19.codes', 15); ctx.floor('C19.sections', 49); ctx.floor('C19.convert.cover', 19); ctx.floor('C19.infinity', 3)
    ctx.floor('C19.convert.half', 4); ctx.floor('C19.convert.sign', 15); ctx.floor('C19.convert.b0', 8); ctx.floor('C19.convert.wrap', 2); ctx.floor('C19.convert.vars', 4); ctx.floor('C19.vartypes', 3); ctx.floor('C19.convert.terms', 6); ctx.floor('C19.tokens', 7)
